package poolcheck

import (
	"encoding/json"
	"fmt"
	"sort"
	"sync"
	"sync/atomic"
	"testing"
	"time"

	"github.com/bytom/bytom/account"
	"github.com/bytom/bytom/consensus"
	dbm "github.com/bytom/bytom/database/leveldb"
	"github.com/bytom/bytom/errors"
	"github.com/bytom/bytom/protocol/bc"
	"pgregory.net/rapid"

	"verifharness/pbt"
)

// C26: UTXO reservations never overlap and cover the request.
//
// The real utxoKeeper (constructed without its ticker goroutine) runs over a MemDB wallet
// database holding the confirmed UTXOs in the wallet's own encoding (JSON under
// StandardUTXOKey / ContractUTXOKey) plus unconfirmed UTXOs added with AddUnconfirmedUtxo.
// An output may be present both ways: that is the state between the wallet attaching a block
// and processing the pool's removal event.  An output is ONE output however it is listed, so
// the oracle works on sets of output ids.
//
// Error precedence for Reserve.  With total = all matching outputs, and the matching outputs
// split into mature-unreserved (free), mature-reserved (held) and immature (young):
//   total < amount                      -> ErrInsufficient            (unambiguous)
//   free >= amount                      -> success                    (unambiguous)
//   free+held >= amount                 -> ErrReserved                (only reservations are in the way)
//   free+young >= amount                -> ErrImmature                (only maturity is in the way)
//   otherwise (both are in the way)     -> ErrImmature or ErrReserved (ambiguous: either accepted;
//                                          the implementation says ErrImmature)
// ReserveParticular: an output that is not visible (unknown, or unconfirmed-only while
// useUnconfirmed is false) must fail (which error is not prescribed by the statement); a visible
// output fails with ErrReserved if held, ErrImmature if young, and otherwise succeeds with
// exactly that output and change 0.

const c26Height = 100

var c26Base = time.Unix(4000000000, 0)

// c26SetBase is called at the start of every executor (cases run one after the other in a process).
func c26SetBase(c c26Case) {
	if c.Past {
		c26Base = time.Unix(1000000000, 0)
	} else {
		c26Base = time.Unix(4000000000, 0)
	}
}

type c26Utxo struct {
	Acc         int    `json:"acc"`   // 0,1
	Asset       int    `json:"asset"` // 0,1
	Vote        int    `json:"vote"`  // 0 = none, 1 = a vote key
	Amount      uint64 `json:"amount"`
	ValidHeight uint64 `json:"valid_height"` // mature iff <= c26Height
	Where       int    `json:"where"`        // 0 confirmed, 1 unconfirmed, 2 both
	Contract    bool   `json:"contract,omitempty"`
}

type c26Op struct {
	Kind   string `json:"kind"` // reserve | particular | cancel | expire
	Acc    int    `json:"acc,omitempty"`
	Asset  int    `json:"asset,omitempty"`
	Vote   int    `json:"vote,omitempty"`
	Amount uint64 `json:"amount,omitempty"`
	Unconf bool   `json:"unconf,omitempty"`
	U      int    `json:"u,omitempty"`   // particular: index of the output (>= number of outputs: unknown hash)
	Res    int    `json:"res,omitempty"` // cancel: index into the reservations made so far (by this goroutine)
	Exp    int    `json:"exp,omitempty"` // expiry of the reservation, seconds after base
	T      int    `json:"t,omitempty"`   // expire: instant, seconds after base
}

type c26Case struct {
	Utxos []c26Utxo `json:"utxos"`
	Ops   []c26Op   `json:"ops"`
	// Past: the instants of the case (expiries, sweep times) are counted from a base in 2001 instead
	// of 2096.  The keeper is given every instant it works with, so nothing may change: a
	// reservation holds its outputs until a sweep with a later instant (or a cancel) releases it,
	// whatever the wall clock says.
	Past bool `json:"past,omitempty"`
}

var (
	c26Accounts = []string{"acc0", "acc1"}
	c26Assets   = []bc.AssetID{*consensus.BTMAssetID, bc.NewAssetID([32]byte{0xa5, 1})}
	c26VoteKey  = []byte{0x07, 0x07, 0x07, 0x07}
)

func c26OutputID(i int) bc.Hash { return bc.NewHash([32]byte{0xc2, 0x60, byte(i + 1)}) }

func c26Vote(v int) []byte {
	if v == 0 {
		return nil
	}
	return c26VoteKey
}

func (u c26Utxo) real(i int) *account.UTXO {
	r := &account.UTXO{
		OutputID:       c26OutputID(i),
		SourceID:       bc.NewHash([32]byte{0xc2, 0x61, byte(i + 1)}),
		AssetID:        c26Assets[u.Asset],
		Amount:         u.Amount,
		ControlProgram: []byte{0x00, 0x14, byte(i)},
		Vote:           c26Vote(u.Vote),
		AccountID:      c26Accounts[u.Acc],
		Address:        fmt.Sprintf("addr%d", i),
		ValidHeight:    u.ValidHeight,
	}
	if u.Contract {
		r.AccountID = ""
		r.Address = ""
		r.ControlProgram = []byte{0x51, byte(i)}
	}
	return r
}

func (u c26Utxo) mature() bool { return u.ValidHeight <= c26Height }

// visibleToReserve: listed by the account scan (standard confirmed UTXOs, plus unconfirmed ones on request).
func (u c26Utxo) matches(op c26Op) bool {
	if u.Contract || u.Acc != op.Acc || u.Asset != op.Asset || u.Vote != op.Vote {
		return false
	}
	return u.Where == 0 || u.Where == 2 || op.Unconf
}

func (u c26Utxo) visibleParticular(unconf bool) bool {
	return u.Where == 0 || u.Where == 2 || unconf
}

func c26Valid(c c26Case) bool {
	if len(c.Utxos) == 0 || len(c.Utxos) > 12 {
		return false
	}
	var sum uint64
	for _, u := range c.Utxos {
		if u.Acc < 0 || u.Acc > 1 || u.Asset < 0 || u.Asset > 1 || u.Vote < 0 || u.Vote > 1 || u.Where < 0 || u.Where > 2 || u.Amount == 0 || u.Amount >= 1<<58 {
			return false
		}
		sum += u.Amount
	}
	for _, op := range c.Ops {
		if op.Acc < 0 || op.Acc > 1 || op.Asset < 0 || op.Asset > 1 || op.Vote < 0 || op.Vote > 1 || op.U < 0 || op.Res < 0 || op.Amount >= 1<<62 {
			return false
		}
	}
	return sum < 1<<62
}

// generator ----------------------------------------------------------------------------------

func c26GenWith(zero bool) func(t *rapid.T) c26Case {
	return func(t *rapid.T) c26Case {
		var c c26Case
		n := rapid.IntRange(1, 12).Draw(t, "nUtxo")
		skew := func(label string) int { // most outputs share one account/asset/vote so that sums matter
			if rapid.IntRange(0, 9).Draw(t, label) < 8 {
				return 0
			}
			return 1
		}
		for i := 0; i < n; i++ {
			u := c26Utxo{Acc: skew("acc"), Asset: skew("asset"), Vote: skew("vote")}
			if rapid.IntRange(0, 11).Draw(t, "big") == 11 {
				u.Amount = rapid.Uint64Range(1<<40, 1<<57).Draw(t, "bigAmount")
			} else {
				u.Amount = rapid.Uint64Range(1, 100).Draw(t, "amount")
			}
			u.ValidHeight = rapid.SampledFrom([]uint64{0, 0, 0, 0, 99, 100, 100, 101, 101, 200}).Draw(t, "validHeight")
			u.Where = rapid.SampledFrom([]int{0, 0, 0, 1, 1, 2, 2}).Draw(t, "where")
			u.Contract = rapid.IntRange(0, 11).Draw(t, "contract") == 11
			c.Utxos = append(c.Utxos, u)
		}
		nOps := rapid.IntRange(1, 14).Draw(t, "nOps")
		for k := 0; k < nOps; k++ {
			var op c26Op
			switch r := rapid.IntRange(0, 19).Draw(t, "opKind"); {
			case r < 10:
				op = c26Op{Kind: "reserve", Unconf: rapid.Bool().Draw(t, "unconf"), Exp: rapid.IntRange(0, 5).Draw(t, "exp")}
				if rapid.IntRange(0, 9).Draw(t, "classOfAnOutput") < 8 { // mostly ask for something that exists
					u := c.Utxos[rapid.IntRange(0, n-1).Draw(t, "like")]
					op.Acc, op.Asset, op.Vote = u.Acc, u.Asset, u.Vote
				} else {
					op.Acc, op.Asset, op.Vote = skew("opAcc"), skew("opAsset"), skew("opVote")
				}
				var total, mat uint64
				for _, u := range c.Utxos {
					if u.matches(op) {
						total += u.Amount
						if u.mature() {
							mat += u.Amount
						}
					}
				}
				var a uint64
				switch rapid.IntRange(0, 9).Draw(t, "amountKind") {
				case 0:
					a = total
				case 1:
					a = mat
				case 2, 3:
					a = mat / 2
				case 4, 5:
					a = mat / 3
				case 6:
					a = mat / 5
				case 7:
					a = rapid.Uint64Range(1, 120).Draw(t, "amount")
				default:
					a = rapid.Uint64Range(1, 30).Draw(t, "smallAmount")
				}
				d := rapid.IntRange(-2, 2).Draw(t, "delta")
				if d < 0 && a < uint64(-d) {
					a = 0
				} else {
					a = uint64(int64(a) + int64(d))
				}
				if a == 0 && !zero {
					a = 1
				}
				if zero && rapid.IntRange(0, 2).Draw(t, "zero") == 0 {
					a = 0
				}
				op.Amount = a
			case r < 14:
				op = c26Op{Kind: "particular", U: rapid.IntRange(0, n).Draw(t, "u"), // n = unknown output
					Unconf: rapid.Bool().Draw(t, "unconf"), Exp: rapid.IntRange(0, 5).Draw(t, "exp")}
			case r < 17:
				op = c26Op{Kind: "cancel", Res: rapid.IntRange(0, 8).Draw(t, "res")}
			default:
				op = c26Op{Kind: "expire", T: rapid.IntRange(0, 6).Draw(t, "t")}
			}
			c.Ops = append(c.Ops, op)
		}
		c.Past = rapid.IntRange(0, 2).Draw(t, "past") == 0
		return c
	}
}

// shared pieces ------------------------------------------------------------------------------

func c26Setup(c c26Case) (*account.VerifUtxoKeeper, map[bc.Hash]int) {
	uk, byID, _ := c26SetupDB(c)
	return uk, byID
}

func c26SetupDB(c c26Case) (*account.VerifUtxoKeeper, map[bc.Hash]int, dbm.DB) {
	db := dbm.NewMemDB()
	uk := account.VerifNewUtxoKeeper(func() uint64 { return c26Height }, db)
	byID := map[bc.Hash]int{}
	var unconfirmed []*account.UTXO
	for i, u := range c.Utxos {
		byID[c26OutputID(i)] = i
		if u.Where == 0 || u.Where == 2 {
			r := u.real(i)
			data, err := json.Marshal(r) // wallet.batchSaveUtxos
			if err != nil {
				panic("HARNESS: " + err.Error())
			}
			if u.Contract {
				db.Set(account.ContractUTXOKey(r.OutputID), data)
			} else {
				db.Set(account.StandardUTXOKey(r.OutputID), data)
			}
		}
		if u.Where == 1 || u.Where == 2 {
			unconfirmed = append(unconfirmed, u.real(i))
		}
	}
	uk.AddUnconfirmedUtxo(unconfirmed)
	return uk, byID, db
}

func c26ErrName(err error) string {
	switch errors.Root(err) {
	case nil:
		return "ok"
	case account.ErrInsufficient:
		return "ErrInsufficient"
	case account.ErrImmature:
		return "ErrImmature"
	case account.ErrReserved:
		return "ErrReserved"
	case account.ErrMatchUTXO:
		return "ErrMatchUTXO"
	}
	return "other(" + err.Error() + ")"
}

func c26Exp(op c26Op) time.Time { return c26Base.Add(time.Duration(op.Exp) * time.Second) }

func c26DescribeRes(r *account.VerifReservation, byID map[bc.Hash]int) string {
	s := fmt.Sprintf("reservation %d {outputs:", r.ID)
	for _, u := range r.UTXOs {
		if i, ok := byID[u.OutputID]; ok {
			s += fmt.Sprintf(" #%d(%d)", i, u.Amount)
		} else {
			s += " " + u.OutputID.String()
		}
	}
	return s + fmt.Sprintf(" change:%d}", r.Change)
}

// c26CheckResult judges a successful reservation on its own (no reference to who holds what).
func c26CheckResult(c c26Case, op c26Op, r *account.VerifReservation, byID map[bc.Hash]int) ([]int, error) {
	if r == nil {
		return nil, fmt.Errorf("success without a reservation")
	}
	seen := map[int]bool{}
	var idxs []int
	var sum uint64
	for _, got := range r.UTXOs {
		i, ok := byID[got.OutputID]
		if !ok {
			return nil, fmt.Errorf("%s holds an output that does not exist", c26DescribeRes(r, byID))
		}
		if seen[i] {
			return nil, fmt.Errorf("%s holds output #%d twice (outputs of one reservation must be distinct)", c26DescribeRes(r, byID), i)
		}
		seen[i] = true
		u := c.Utxos[i]
		if got.Amount != u.Amount {
			return nil, fmt.Errorf("%s reports amount %d for output #%d which is worth %d", c26DescribeRes(r, byID), got.Amount, i, u.Amount)
		}
		if !u.mature() {
			return nil, fmt.Errorf("%s holds immature output #%d (valid from height %d, current height %d)", c26DescribeRes(r, byID), i, u.ValidHeight, c26Height)
		}
		if op.Kind == "reserve" && !u.matches(op) {
			return nil, fmt.Errorf("%s holds output #%d which is not a listed output of account %d / asset %d / vote %d (unconfirmed allowed: %v)", c26DescribeRes(r, byID), i, op.Acc, op.Asset, op.Vote, op.Unconf)
		}
		idxs = append(idxs, i)
		sum += u.Amount
	}
	if op.Kind == "reserve" {
		if sum < op.Amount {
			return nil, fmt.Errorf("%s sums to %d, less than the requested %d", c26DescribeRes(r, byID), sum, op.Amount)
		}
		if r.Change != sum-op.Amount {
			return nil, fmt.Errorf("%s: change should be %d - %d = %d", c26DescribeRes(r, byID), sum, op.Amount, sum-op.Amount)
		}
	} else {
		if len(idxs) != 1 || idxs[0] != op.U || r.Change != 0 {
			return nil, fmt.Errorf("ReserveParticular(#%d) returned %s", op.U, c26DescribeRes(r, byID))
		}
	}
	if !r.Expiry.Equal(c26Exp(op)) {
		return nil, fmt.Errorf("%s has expiry %v, requested %v", c26DescribeRes(r, byID), r.Expiry, c26Exp(op))
	}
	return idxs, nil
}

// c26CheckDump: no output in two live reservations; the reserved index agrees with the live reservations.
func c26CheckDump(uk *account.VerifUtxoKeeper, byID map[bc.Hash]int) (map[uint64]*account.VerifReservation, error) {
	live, reserved := uk.VerifDump()
	sort.Slice(live, func(i, j int) bool { return live[i].ID < live[j].ID })
	holder := map[bc.Hash]uint64{}
	out := map[uint64]*account.VerifReservation{}
	for _, r := range live {
		if _, dup := out[r.ID]; dup {
			return nil, fmt.Errorf("two live reservations share id %d", r.ID)
		}
		out[r.ID] = r
		for _, u := range r.UTXOs {
			if h, ok := holder[u.OutputID]; ok && h != r.ID {
				return nil, fmt.Errorf("output #%d is held by two live reservations, %d and %d", byID[u.OutputID], h, r.ID)
			}
			holder[u.OutputID] = r.ID
			if rid, ok := reserved[u.OutputID]; !ok || rid != r.ID {
				return nil, fmt.Errorf("output #%d is held by live reservation %d but the reserved index says %d (present: %v)", byID[u.OutputID], r.ID, rid, ok)
			}
		}
	}
	for o, rid := range reserved {
		if holder[o] != rid {
			return nil, fmt.Errorf("the reserved index marks output #%d as held by reservation %d, which is not a live reservation holding it", byID[o], rid)
		}
	}
	return out, nil
}

// sequential sub-check -----------------------------------------------------------------------

type c26Made struct {
	id   uint64
	exp  int
	outs []int
	live bool
}

func c26ExecSeq(c c26Case, x *pbt.Ctx) error {
	if !c26Valid(c) {
		return nil
	}
	c26SetBase(c)
	if c.Past {
		x.Class("instants-in-the-past-of-the-wall-clock")
	}
	c.Utxos = append([]c26Utxo(nil), c.Utxos...) // "confirm"/"pool" change Where
	uk, byID, db := c26SetupDB(c)
	held := map[int]uint64{} // model: output index -> reservation id
	var made []*c26Made
	hasDup, sawFailure := false, false
	for _, u := range c.Utxos {
		if u.Where == 2 {
			hasDup = true
		}
	}
	for step, op := range c.Ops {
		at := fmt.Sprintf("step %d", step)
		switch op.Kind {
		case "reserve":
			var total, free, heldAmt, young uint64
			dupListed := false
			for i, u := range c.Utxos {
				if !u.matches(op) {
					continue
				}
				if u.Where == 2 && op.Unconf {
					dupListed = true
				}
				total += u.Amount
				switch {
				case !u.mature():
					young += u.Amount
				case held[i] != 0:
					heldAmt += u.Amount
				default:
					free += u.Amount
				}
			}
			if dupListed {
				x.Class("reserve-sees-confirmed+unconfirmed-duplicate")
			}
			var want []string
			switch {
			case total < op.Amount:
				want = []string{"ErrInsufficient"}
			case free >= op.Amount:
				want = []string{"ok"}
			case free+heldAmt >= op.Amount:
				want = []string{"ErrReserved"}
			case free+young >= op.Amount:
				want = []string{"ErrImmature"}
			default:
				want = []string{"ErrImmature", "ErrReserved"}
				x.Class("reserve-failure-ambiguous(immature+reserved)")
			}
			desc := fmt.Sprintf("%s: Reserve(account %d, asset %d, vote %d, amount %d, useUnconfirmed %v) with matching outputs worth %d in total (free %d, reserved %d, immature %d)",
				at, op.Acc, op.Asset, op.Vote, op.Amount, op.Unconf, total, free, heldAmt, young)
			r, err := uk.VerifReserve(c26Accounts[op.Acc], &c26Assets[op.Asset], op.Amount, op.Unconf, c26Vote(op.Vote), c26Exp(op))
			got := c26ErrName(err)
			x.Class("reserve-" + got)
			if got != want[0] && got != want[len(want)-1] {
				if err == nil {
					return fmt.Errorf("%s: expected %v, but it succeeded with %s", desc, want, c26DescribeRes(r, byID))
				}
				return fmt.Errorf("%s: expected %v, got %s", desc, want, got)
			}
			if err != nil {
				sawFailure = true
				if r != nil {
					return fmt.Errorf("%s: failed with %s and still returned a reservation", desc, got)
				}
				break
			}
			idxs, verr := c26CheckResult(c, op, r, byID)
			if verr != nil {
				return fmt.Errorf("%s: %v", desc, verr)
			}
			for _, i := range idxs {
				if held[i] != 0 {
					return fmt.Errorf("%s: %s takes output #%d which live reservation %d already holds", desc, c26DescribeRes(r, byID), i, held[i])
				}
			}
			for _, m := range made {
				if m.id == r.ID {
					return fmt.Errorf("%s: reservation id %d was used before", desc, r.ID)
				}
			}
			if len(idxs) > 1 {
				x.Class("reservation-with>=2-outputs")
			}
			for _, i := range idxs {
				held[i] = r.ID
			}
			made = append(made, &c26Made{id: r.ID, exp: op.Exp, outs: idxs, live: true})
		case "particular":
			desc := fmt.Sprintf("%s: ReserveParticular(#%d, useUnconfirmed %v)", at, op.U, op.Unconf)
			r, err := uk.VerifReserveParticular(c26OutputID(op.U), op.Unconf, c26Exp(op))
			got := c26ErrName(err)
			x.Class("particular-" + got)
			if err != nil {
				sawFailure = true
			}
			if op.U >= len(c.Utxos) || !c.Utxos[op.U].visibleParticular(op.Unconf) {
				if err == nil {
					return fmt.Errorf("%s: the output is not visible (unknown, or only unconfirmed) but the reservation succeeded with %s", desc, c26DescribeRes(r, byID))
				}
				break
			}
			u := c.Utxos[op.U]
			want := "ok"
			switch {
			case held[op.U] != 0:
				want = "ErrReserved"
			case !u.mature():
				want = "ErrImmature"
			}
			if got != want {
				return fmt.Errorf("%s: output worth %d, valid from height %d (current %d), held by reservation %d: expected %s, got %s", desc, u.Amount, u.ValidHeight, c26Height, held[op.U], want, got)
			}
			if err != nil {
				break
			}
			idxs, verr := c26CheckResult(c, op, r, byID)
			if verr != nil {
				return fmt.Errorf("%s: %v", desc, verr)
			}
			held[op.U] = r.ID
			made = append(made, &c26Made{id: r.ID, exp: op.Exp, outs: idxs, live: true})
		case "cancel":
			id := uint64(1 << 40) // unknown id: no effect
			if len(made) > 0 && op.Res < 8 {
				m := made[op.Res%len(made)]
				id = m.id
				if m.live {
					x.Class("cancel-live")
					m.live = false
					for _, i := range m.outs {
						delete(held, i)
					}
				} else {
					x.Class("cancel-dead")
				}
			} else {
				x.Class("cancel-unknown")
			}
			uk.Cancel(id)
		case "confirm":
			// what the wallet does when a pooled transaction is confirmed: the output is written to the
			// wallet database (attachUtxos) and leaves the unconfirmed set (RemoveUnconfirmedTx)
			i := op.U % len(c.Utxos)
			u := &c.Utxos[i]
			if u.Contract {
				return nil
			}
			if u.Where == 1 {
				data, err := json.Marshal(u.real(i))
				if err != nil {
					panic("HARNESS: " + err.Error())
				}
				db.Set(account.StandardUTXOKey(c26OutputID(i)), data)
			}
			if u.Where != 0 {
				x.Class("confirm-unconfirmed-output")
				if _, isHeld := held[i]; isHeld {
					x.Class("confirm-held-output")
				}
			}
			id := c26OutputID(i)
			uk.RemoveUnconfirmedUtxo([]*bc.Hash{&id})
			u.Where = 0
		case "pool":
			// a confirmed output shows up in the unconfirmed set too (its transaction is re-announced)
			i := op.U % len(c.Utxos)
			u := &c.Utxos[i]
			if u.Contract || u.Where != 0 {
				return nil
			}
			uk.AddUnconfirmedUtxo([]*account.UTXO{u.real(i)})
			u.Where = 2
		case "expire":
			n := 0
			for _, m := range made {
				if m.live && m.exp < op.T { // expiry.Before(t)
					m.live = false
					n++
					for _, i := range m.outs {
						delete(held, i)
					}
				}
			}
			if n > 0 {
				x.Class("expire-some")
			} else {
				x.Class("expire-none")
			}
			uk.VerifExpire(c26Base.Add(time.Duration(op.T) * time.Second))
		default:
			return nil
		}

		// after every op: no overlap, and the keeper's live reservations are the model's
		live, err := c26CheckDump(uk, byID)
		if err != nil {
			return fmt.Errorf("%s (%s): %v", at, op.Kind, err)
		}
		nLive := 0
		for _, m := range made {
			r, ok := live[m.id]
			if m.live != ok {
				return fmt.Errorf("%s (%s): reservation %d live in the keeper: %v, expected: %v", at, op.Kind, m.id, ok, m.live)
			}
			if !m.live {
				continue
			}
			nLive++
			if len(r.UTXOs) != len(m.outs) {
				return fmt.Errorf("%s (%s): live %s no longer holds the outputs it was created with %v", at, op.Kind, c26DescribeRes(r, byID), m.outs)
			}
			for k, u := range r.UTXOs {
				if byID[u.OutputID] != m.outs[k] {
					return fmt.Errorf("%s (%s): live %s no longer holds the outputs it was created with %v", at, op.Kind, c26DescribeRes(r, byID), m.outs)
				}
			}
		}
		if nLive != len(live) {
			return fmt.Errorf("%s (%s): the keeper has %d live reservations, expected %d", at, op.Kind, len(live), nLive)
		}
	}
	x.NonTrivial = hasDup || sawFailure
	return nil
}

// concurrent sub-check -----------------------------------------------------------------------

type c26Event struct {
	op         c26Op
	start, end int64 // logical clock around the call
	res        *account.VerifReservation
	err        error
	cancelID   uint64
	idxs       []int
}

const c26Workers = 4

func c26ExecConc(c c26Case, x *pbt.Ctx) error {
	if !c26Valid(c) {
		return nil
	}
	c26SetBase(c)
	uk, byID := c26Setup(c)
	var clock int64
	events := make([][]*c26Event, c26Workers)
	var wg sync.WaitGroup
	startGate := make(chan struct{})
	for w := 0; w < c26Workers; w++ {
		wg.Add(1)
		go func(w int) {
			defer wg.Done()
			<-startGate
			var mine []*c26Event // own successful reservations
			for k := w; k < len(c.Ops); k += c26Workers {
				ev := &c26Event{op: c.Ops[k]}
				ev.start = atomic.AddInt64(&clock, 1)
				switch ev.op.Kind {
				case "reserve":
					ev.res, ev.err = uk.VerifReserve(c26Accounts[ev.op.Acc], &c26Assets[ev.op.Asset], ev.op.Amount, ev.op.Unconf, c26Vote(ev.op.Vote), c26Exp(ev.op))
				case "particular":
					ev.res, ev.err = uk.VerifReserveParticular(c26OutputID(ev.op.U), ev.op.Unconf, c26Exp(ev.op))
				case "cancel":
					ev.cancelID = 1 << 40
					if len(mine) > 0 {
						ev.cancelID = mine[ev.op.Res%len(mine)].res.ID
					}
					uk.Cancel(ev.cancelID)
				case "expire":
					uk.VerifExpire(c26Base.Add(time.Duration(ev.op.T) * time.Second))
				}
				ev.end = atomic.AddInt64(&clock, 1)
				if ev.res != nil && ev.err == nil {
					mine = append(mine, ev)
				}
				events[w] = append(events[w], ev)
			}
		}(w)
	}
	close(startGate)
	wg.Wait()

	var all, made []*c26Event
	for _, evs := range events {
		all = append(all, evs...)
	}
	hasDup, sawFailure := false, false
	for _, u := range c.Utxos {
		if u.Where == 2 {
			hasDup = true
		}
	}
	for _, ev := range all {
		op := ev.op
		switch op.Kind {
		case "reserve":
			// the UTXO set and the height are fixed, only who holds what varies
			var total, mat uint64
			for _, u := range c.Utxos {
				if u.matches(op) {
					total += u.Amount
					if u.mature() {
						mat += u.Amount
					}
				}
			}
			got := c26ErrName(ev.err)
			x.Class("reserve-" + got)
			desc := fmt.Sprintf("concurrent Reserve(account %d, asset %d, vote %d, amount %d, useUnconfirmed %v) with matching outputs worth %d (mature %d)", op.Acc, op.Asset, op.Vote, op.Amount, op.Unconf, total, mat)
			var allowed []string
			switch {
			case total < op.Amount:
				allowed = []string{"ErrInsufficient"}
			case mat < op.Amount:
				allowed = []string{"ErrImmature", "ErrReserved"}
			default:
				allowed = []string{"ok", "ErrReserved"}
			}
			okOutcome := false
			for _, a := range allowed {
				if a == got {
					okOutcome = true
				}
			}
			if !okOutcome {
				if ev.err == nil {
					return fmt.Errorf("%s: allowed outcomes %v, but it succeeded with %s", desc, allowed, c26DescribeRes(ev.res, byID))
				}
				return fmt.Errorf("%s: allowed outcomes %v, got %s", desc, allowed, got)
			}
			if ev.err != nil {
				sawFailure = true
				continue
			}
			idxs, verr := c26CheckResult(c, op, ev.res, byID)
			if verr != nil {
				return fmt.Errorf("%s: %v", desc, verr)
			}
			ev.idxs = idxs
			made = append(made, ev)
		case "particular":
			got := c26ErrName(ev.err)
			x.Class("particular-" + got)
			desc := fmt.Sprintf("concurrent ReserveParticular(#%d, useUnconfirmed %v)", op.U, op.Unconf)
			if ev.err != nil {
				sawFailure = true
			}
			if op.U >= len(c.Utxos) || !c.Utxos[op.U].visibleParticular(op.Unconf) {
				if ev.err == nil {
					return fmt.Errorf("%s: the output is not visible but the reservation succeeded", desc)
				}
				continue
			}
			if u := c.Utxos[op.U]; !u.mature() {
				if got != "ErrImmature" {
					return fmt.Errorf("%s: immature output (nobody can hold it): expected ErrImmature, got %s", desc, got)
				}
				continue
			}
			if got != "ok" && got != "ErrReserved" {
				return fmt.Errorf("%s: allowed outcomes [ok ErrReserved], got %s", desc, got)
			}
			if ev.err != nil {
				continue
			}
			idxs, verr := c26CheckResult(c, op, ev.res, byID)
			if verr != nil {
				return fmt.Errorf("%s: %v", desc, verr)
			}
			ev.idxs = idxs
			made = append(made, ev)
		}
	}
	// distinct ids
	ids := map[uint64]bool{}
	for _, m := range made {
		if ids[m.res.ID] {
			return fmt.Errorf("two concurrent reservations got the same id %d", m.res.ID)
		}
		ids[m.res.ID] = true
	}
	// final state: no overlap, index consistent; what must be live is live, what must be dead is dead
	live, err := c26CheckDump(uk, byID)
	if err != nil {
		return fmt.Errorf("after the concurrent run: %v", err)
	}
	for id := range live {
		if !ids[id] {
			return fmt.Errorf("after the concurrent run the keeper holds reservation %d which no caller received", id)
		}
	}
	// a release of reservation m that certainly took place: it began after m was returned
	// a release that possibly took place: it ended... began before the other party finished
	releases := func(m *c26Event) []*c26Event {
		var out []*c26Event
		for _, ev := range all {
			if (ev.op.Kind == "cancel" && ev.cancelID == m.res.ID) || (ev.op.Kind == "expire" && m.op.Exp < ev.op.T) {
				out = append(out, ev)
			}
		}
		return out
	}
	for _, m := range made {
		rel := releases(m)
		certain, possible := false, false
		for _, ev := range rel {
			if ev.start > m.end {
				certain = true
			}
			if ev.end > m.start {
				possible = true
			}
		}
		_, isLive := live[m.res.ID]
		if isLive && certain {
			return fmt.Errorf("%s was cancelled/expired by a call that began after it was returned, but is still live after the run", c26DescribeRes(m.res, byID))
		}
		if !isLive && !possible {
			return fmt.Errorf("%s is no longer live although no cancel/expire that could release it ran", c26DescribeRes(m.res, byID))
		}
	}
	// two reservations sharing an output: one of them must have been released before the other was made
	shared := false
	for a := 0; a < len(made); a++ {
		for b := a + 1; b < len(made); b++ {
			m1, m2 := made[a], made[b]
			common := -1
			for _, i := range m1.idxs {
				for _, j := range m2.idxs {
					if i == j {
						common = i
					}
				}
			}
			if common < 0 {
				continue
			}
			shared = true
			// possible order "m1, release of m1, m2": a release X of m1 with X.end > m1.start and X.start < m2.end
			okOrder := func(first, second *c26Event) bool {
				for _, ev := range releases(first) {
					if ev.end > first.start && ev.start < second.end && first.start < second.end {
						return true
					}
				}
				return false
			}
			if !okOrder(m1, m2) && !okOrder(m2, m1) {
				return fmt.Errorf("output #%d was handed to both %s and %s, and neither could have been released before the other was made", common, c26DescribeRes(m1.res, byID), c26DescribeRes(m2.res, byID))
			}
		}
	}
	if shared {
		x.Class("output-reused-after-release")
	}
	if len(made) >= 2 {
		x.Class("concurrent>=2-successes")
	}
	x.NonTrivial = hasDup || sawFailure
	return nil
}

// c26GenDynamic: the sequential history with the wallet's changes of the output set in between.
func c26GenDynamic(t *rapid.T) c26Case {
	c := c26GenWith(false)(t)
	for k := rapid.IntRange(1, 4).Draw(t, "ndyn"); k > 0; k-- {
		op := c26Op{Kind: rapid.SampledFrom([]string{"confirm", "confirm", "pool"}).Draw(t, "dynkind"), U: rapid.IntRange(0, 11).Draw(t, "dynu")}
		at := rapid.IntRange(0, len(c.Ops)).Draw(t, "dynat")
		c.Ops = append(c.Ops[:at], append([]c26Op{op}, c.Ops[at:]...)...)
	}
	return c
}

func TestC26(t *testing.T) {
	rule := "1..12 outputs over 2 accounts x 2 assets x {no vote, a vote key} (skewed to one class), amounts 1..100 or 2^40..2^57, valid heights {0,99,100,101,200} around the current height 100, each confirmed / unconfirmed / both, a few contract outputs; 1..14 ops Reserve (amount near the total / mature total / fractions of it / 1..120, +-2) / ReserveParticular (also unknown hash) / Cancel / expire(t), instants counted from 2096 or (one case in three) from 2001; non-trivial = the set has a confirmed+unconfirmed duplicate or some call failed; distinct by case"
	pbt.Run(t, "C26", rule+"; sequential: after every op the keeper's live reservations and reserved index are compared with a set model, every result is judged (see the source for the error precedence)",
		pbt.Options{Sub: "sequential", Checks: pbt.Per(12000, 900000)}, c26GenWith(false), c26ExecSeq)
	pbt.Run(t, "C26", rule+"; concurrent: the ops are dealt round-robin to 4 goroutines (a cancel targets one of the goroutine's own reservations); per-result validity, state-independent error rules, final no-overlap/index consistency, and any two reservations sharing an output must be separable by a release (logical-clock intervals); built with -race by the driver",
		pbt.Options{Sub: "concurrent", Checks: pbt.Per(4000, 300000)}, c26GenWith(false), c26ExecConc)
	pbt.Run(t, "C26", rule+"; dynamic: the sequential history with 1-4 changes of the output set as the wallet makes them (an unconfirmed output is confirmed: written to the wallet database and taken out of the unconfirmed set; a confirmed output appears in the unconfirmed set too), same judgement after every op",
		pbt.Options{Sub: "dynamic", Checks: pbt.Per(6000, 450000), MinClass: map[string]int{"confirm-held-output": 50}}, c26GenDynamic, c26ExecSeq)
	// Reserve(amount 0) is outside the domain: both callers (spend and veto actions) reject a zero
	// amount before they reach the keeper (the veto action since the "fix: veto action rejects a
	// zero amount" commit; before it a zero-amount veto panicked in the UTXO selection).
}
