package pbt

import (
	"flag"
	"strconv"
	"testing"

	"pgregory.net/rapid"
)

// checkN runs rapid.Check with the given number of cases (rapid only takes the
// count from its flag, so the flag is set programmatically; the seed flag is
// left to the driver).
func checkN(t *testing.T, n int, prop func(*rapid.T)) {
	if n > 0 {
		_ = flag.Set("rapid.checks", strconv.Itoa(n))
	}
	_ = flag.Set("rapid.nofailfile", "true")
	rapid.Check(t, prop)
}
