// Package pbt is the small runtime shared by every check: it drives a property
// with rapid, keeps the evidence counters, writes replay files for failing cases,
// replays saved cases without rapid, keeps a crash journal and applies the
// known-findings file.
//
// A check has the shape  generate a case (plain data) -> execute -> judge.
// The executor is `func(c C, x *Ctx) error`: a pure function of the case and the
// code under test.  A non-nil error is a violation of the property.
package pbt

import (
	"encoding/binary"
	"encoding/json"
	"fmt"
	"hash/fnv"
	"os"
	"path/filepath"
	"runtime/debug"
	"sort"
	"strconv"
	"strings"
	"sync"
	"testing"
	"time"

	"pgregory.net/rapid"
)

// Ctx is handed to the executor so that it can classify the case it ran.
type Ctx struct {
	NonTrivial bool     // the case is non-trivial by the check's stated rule
	Classes    []string // histogram labels
	known      []string // known-finding ids this case matched (case is then excluded from judgement by the executor)
	Key        string   // optional: canonical key for distinct counting (defaults to the JSON of the case)
	Sample     any      // optional: what to write as the sample (defaults to the case)
	Replaying  bool
	sub        string
	counts     map[string]int
}

// Count adds n to a named counter that ends up in the evidence coverage object (summed over cases and shards).
func (x *Ctx) Count(name string, n int) {
	if x.counts == nil {
		x.counts = map[string]int{}
	}
	x.counts[name] += n
}

// Class adds a histogram label.
func (x *Ctx) Class(format string, args ...any) {
	if len(args) == 0 {
		x.Classes = append(x.Classes, format)
		return
	}
	x.Classes = append(x.Classes, fmt.Sprintf(format, args...))
}

// Known records that this case hit the known finding with the given id.  The
// executor is expected to have verified that what happened is what the finding
// describes and then to skip the judgement the finding would fail.
func (x *Ctx) Known(id string) { x.known = append(x.known, id) }

type finding struct {
	Status   string `json:"status"`
	Property string `json:"property"`
	ID       string `json:"id"`
	What     string `json:"what"`
}

type part struct {
	Property    string         `json:"property_id"`
	Shard       int            `json:"shard"`
	Evaluations int            `json:"evaluations"`
	Requested   int            `json:"requested"`
	NonTrivial  int            `json:"nontrivial_total"`
	Distinct    int            `json:"distinct_nontrivial"`
	Hashes      []uint64       `json:"hashes"`
	Classes     map[string]int `json:"classes"`
	Known       map[string]int `json:"known_excluded"`
	Samples     []any          `json:"samples"`
	Regress     int            `json:"regression_cases"`
	Rule        string         `json:"rule"`
	Failures    []string       `json:"failures"`
	WallS       float64        `json:"wall_s"`
	Extra       map[string]any `json:"extra,omitempty"`
}

// Recorder holds the counters of one check in one process.
type Recorder struct {
	mu         sync.Mutex
	id, rule   string
	shard      int
	outDir     string
	start      time.Time
	evals      int
	nt         int
	hashes     map[uint64]struct{}
	classes    map[string]int
	known      map[string]int
	printed    map[string]bool
	samples    []any
	regress    int
	requested  int
	failures   []string
	findings   map[string]finding
	extra      map[string]any
	MaxSamples int
}

const maxHashes = 400000

// Env helpers ---------------------------------------------------------------

func Tier() string {
	if t := os.Getenv("VERIF_TIER"); t != "" {
		return t
	}
	return "quick"
}

func Thorough() bool { return Tier() == "thorough" }

func envInt(name string, def int) int {
	if v := os.Getenv(name); v != "" {
		if n, err := strconv.Atoi(v); err == nil {
			return n
		}
	}
	return def
}

// Shard is the index of this process among the shards of a thorough run.
func Shard() int { return envInt("VERIF_SHARD", 0) }

// Scale returns q in the quick tier and th in the thorough tier.
func Scale(q, th int) int {
	if Thorough() {
		return th
	}
	return q
}

// VerifRoot is /verif (or wherever the driver lives).
func VerifRoot() string {
	if r := os.Getenv("VERIF_ROOT"); r != "" {
		return r
	}
	return "/verif"
}

var (
	regMu     sync.Mutex
	recorders = map[string]*Recorder{}
)

// getRecorder returns the process-wide recorder of a property; sub-checks of one
// property share it so that the evidence part file is cumulative.
func getRecorder(id, sub, rule string) *Recorder {
	regMu.Lock()
	defer regMu.Unlock()
	if r, ok := recorders[id]; ok {
		r.mu.Lock()
		if sub != "" {
			rule = "[" + sub + "] " + rule
		}
		if !strings.Contains(r.rule, rule) {
			r.rule += " || " + rule
		}
		r.mu.Unlock()
		return r
	}
	if sub != "" {
		rule = "[" + sub + "] " + rule
	}
	r := newRecorder(id, rule)
	recorders[id] = r
	return r
}

func newRecorder(id, rule string) *Recorder {
	r := &Recorder{
		id: id, rule: rule, shard: Shard(), outDir: os.Getenv("VERIF_OUT"), start: time.Now(),
		hashes: map[uint64]struct{}{}, classes: map[string]int{}, known: map[string]int{},
		printed: map[string]bool{}, findings: map[string]finding{}, extra: map[string]any{}, MaxSamples: 6,
	}
	if raw, err := os.ReadFile(filepath.Join(VerifRoot(), "known_findings.json")); err == nil {
		var fs []finding
		if json.Unmarshal(raw, &fs) == nil {
			for _, f := range fs {
				if f.Status == "known" && f.Property == id {
					r.findings[f.ID] = f
				}
			}
		}
	}
	return r
}

func hashKey(s string) uint64 {
	h := fnv.New64a()
	h.Write([]byte(s))
	return h.Sum64()
}

func (r *Recorder) record(c any, x *Ctx) (unlistedKnown string) {
	r.mu.Lock()
	defer r.mu.Unlock()
	r.evals++
	if x.sub != "" {
		r.classes["sub:"+x.sub]++
	}
	for _, cl := range x.Classes {
		r.classes[cl]++
	}
	for k, v := range x.counts {
		if old, ok := r.extra[k].(int); ok {
			r.extra[k] = old + v
		} else {
			r.extra[k] = v
		}
	}
	for _, k := range x.known {
		f, ok := r.findings[k]
		if !ok {
			return k
		}
		r.known[k]++
		if !r.printed[k] {
			r.printed[k] = true
			fmt.Printf("KNOWN-FINDING: property=%s %s: %s\n", r.id, f.ID, f.What)
		}
	}
	if x.NonTrivial {
		r.nt++
		key := x.Key
		if key == "" {
			b, _ := json.Marshal(c)
			key = string(b)
		}
		h := hashKey(key)
		if _, seen := r.hashes[h]; !seen && len(r.hashes) < maxHashes {
			r.hashes[h] = struct{}{}
			if len(r.samples) < r.MaxSamples {
				s := x.Sample
				if s == nil {
					s = c
				}
				r.samples = append(r.samples, s)
			}
		}
	}
	return ""
}

// SetExtra stores an additional key in the evidence coverage object.
func (r *Recorder) SetExtra(k string, v any) {
	r.mu.Lock()
	r.extra[k] = v
	r.mu.Unlock()
}

func (r *Recorder) flush() {
	if r.outDir == "" {
		return
	}
	r.mu.Lock()
	defer r.mu.Unlock()
	p := part{Property: r.id, Shard: r.shard, Evaluations: r.evals, Requested: r.requested, NonTrivial: r.nt,
		Distinct: len(r.hashes), Classes: r.classes, Known: r.known, Samples: r.samples, Regress: r.regress,
		Rule: r.rule, Failures: r.failures, WallS: time.Since(r.start).Seconds(), Extra: r.extra}
	for h := range r.hashes {
		p.Hashes = append(p.Hashes, h)
	}
	sort.Slice(p.Hashes, func(i, j int) bool { return p.Hashes[i] < p.Hashes[j] })
	// hashes go to a side file in binary form; the JSON part stays small
	hb := make([]byte, 8*len(p.Hashes))
	for i, h := range p.Hashes {
		binary.LittleEndian.PutUint64(hb[8*i:], h)
	}
	p.Hashes = nil
	base := filepath.Join(r.outDir, fmt.Sprintf("%s.%d", r.id, r.shard))
	_ = os.WriteFile(base+".hashes", hb, 0o644)
	b, _ := json.MarshalIndent(p, "", " ")
	_ = os.WriteFile(base+".part.json", b, 0o644)
}

type replayFile struct {
	Property string          `json:"property"`
	Sub      string          `json:"sub,omitempty"`
	Message  string          `json:"message,omitempty"`
	Case     json.RawMessage `json:"case"`
}

func (r *Recorder) writeReplay(sub string, c any, msg string) string {
	dir := r.outDir
	if dir == "" {
		dir = os.TempDir()
	}
	b, err := json.Marshal(c)
	if err != nil {
		b = []byte(`null`)
	}
	rf := replayFile{Property: r.id, Sub: sub, Message: msg, Case: b}
	out, _ := json.MarshalIndent(rf, "", " ")
	path := filepath.Join(dir, fmt.Sprintf("%s%s.%d.replay.json", r.id, dashed(sub), r.shard))
	_ = os.WriteFile(path, out, 0o644)
	return path
}

func (r *Recorder) journal(sub string, c any) {
	p := os.Getenv("VERIF_JOURNAL")
	if p == "" {
		return
	}
	b, err := json.Marshal(c)
	if err != nil {
		return
	}
	rf := replayFile{Property: r.id, Sub: sub, Message: "process died while executing this case", Case: b}
	out, _ := json.Marshal(rf)
	tmp := p + ".tmp"
	if os.WriteFile(tmp, out, 0o644) == nil {
		_ = os.Rename(tmp, p)
	}
}

func safeExec[C any](exec func(C, *Ctx) error, c C, x *Ctx) (err error) {
	defer func() {
		if p := recover(); p != nil {
			err = fmt.Errorf("panic: %v\n%s", p, debug.Stack())
		}
	}()
	return exec(c, x)
}

// Options tune Run.
type Options struct {
	Sub        string // name of the sub-check (a property may be decided by several generators/oracles)
	Checks     int    // number of rapid cases requested (after tier scaling); 0 = use -rapid.checks
	Journal    bool   // write every case to $VERIF_JOURNAL before executing it
	NoRegress  bool
	MinClass   map[string]int // classes that must occur at least this often for the run to count (else the test fails as "generator health")
	MaxSamples int
}

// Run drives one property: replay mode, regression tier, then rapid.
func Run[C any](t *testing.T, id, rule string, opt Options, gen func(*rapid.T) C, exec func(C, *Ctx) error) {
	r := getRecorder(id, opt.Sub, rule)
	if opt.MaxSamples > 0 {
		r.MaxSamples = opt.MaxSamples
	}
	defer func() { r.flush() }()

	runSaved := func(path string, raw []byte, replaying bool) {
		var rf replayFile
		var c C
		if err := json.Unmarshal(raw, &rf); err != nil || rf.Case == nil {
			t.Fatalf("HARNESS: bad replay file %s: %v", path, err)
		}
		if rf.Sub != opt.Sub {
			return
		}
		if err := json.Unmarshal(rf.Case, &c); err != nil {
			t.Fatalf("HARNESS: replay file %s does not decode into the case type: %v", path, err)
		}
		x := &Ctx{Replaying: replaying, sub: opt.Sub}
		if replaying {
			fmt.Printf("REPLAY-RUN property=%s sub=%q file=%s\n", id, opt.Sub, path)
		}
		if opt.Journal {
			r.journal(opt.Sub, c)
		}
		err := safeExec(exec, c, x)
		if bad := r.record(c, x); bad != "" && err == nil {
			err = fmt.Errorf("case matches finding %q which is not listed as known in known_findings.json", bad)
		}
		r.mu.Lock()
		r.regress++
		r.mu.Unlock()
		if err != nil {
			out := r.writeReplay(opt.Sub, c, err.Error())
			r.failures = append(r.failures, out)
			fmt.Printf("FAILCASE property=%s source=%s replay=%s\n%s\n", id, path, out, indent(err.Error()))
			t.Fatalf("saved case %s fails: %v", path, firstLine(err.Error()))
		}
	}

	if p := os.Getenv("VERIF_REPLAY"); p != "" {
		raw, err := os.ReadFile(p)
		if err != nil {
			t.Fatalf("HARNESS: cannot read replay file: %v", err)
		}
		runSaved(p, raw, true)
		return
	}

	if !opt.NoRegress && r.shard == 0 {
		for _, sub := range []string{"replays", "corpus"} {
			files, _ := filepath.Glob(filepath.Join(VerifRoot(), sub, id, "*.json"))
			sort.Strings(files)
			for _, f := range files {
				raw, err := os.ReadFile(f)
				if err != nil {
					continue
				}
				runSaved(f, raw, false)
			}
		}
	}

	r.mu.Lock()
	r.requested += opt.Checks
	r.mu.Unlock()
	prop := func(rt *rapid.T) {
		c := gen(rt)
		x := &Ctx{sub: opt.Sub}
		if opt.Journal {
			r.journal(opt.Sub, c)
		}
		err := safeExec(exec, c, x)
		if bad := r.record(c, x); bad != "" && err == nil {
			err = fmt.Errorf("case matches finding %q which is not listed as known in known_findings.json", bad)
		}
		if err != nil {
			out := r.writeReplay(opt.Sub, c, err.Error())
			r.mu.Lock()
			if len(r.failures) == 0 || r.failures[len(r.failures)-1] != out {
				r.failures = append(r.failures, out)
			}
			r.mu.Unlock()
			rt.Fatalf("FAILCASE property=%s replay=%s\n%s", id, out, indent(err.Error()))
		}
	}
	checkN(t, opt.Checks, prop)

	for cl, min := range opt.MinClass {
		if r.classes[cl] < min {
			t.Fatalf("HARNESS: generator health: class %q occurred %d times, need >= %d", cl, r.classes[cl], min)
		}
	}
}

func dashed(s string) string {
	if s == "" {
		return ""
	}
	return "-" + s
}

func indent(s string) string {
	return "    " + strings.ReplaceAll(s, "\n", "\n    ")
}

func firstLine(s string) string {
	if i := strings.IndexByte(s, '\n'); i >= 0 {
		return s[:i]
	}
	return s
}

// Per returns the number of cases this process should run: q in the quick tier,
// th divided over the shards in the thorough tier.  VERIF_CHECKS_MUL (a float)
// scales both, for experiments.
func Per(q, th int) int {
	n := q
	if Thorough() {
		sh := envInt("VERIF_SHARDS", 1)
		if sh < 1 {
			sh = 1
		}
		n = (th + sh - 1) / sh
	}
	if m := os.Getenv("VERIF_CHECKS_MUL"); m != "" {
		if f, err := strconv.ParseFloat(m, 64); err == nil && f > 0 {
			n = int(float64(n) * f)
		}
	}
	if n < 1 {
		n = 1
	}
	return n
}

// WriteReplay stores a failing case found outside rapid (native fuzz targets) in the same
// replay format and place; it returns the path.
func WriteReplay(id, sub string, c any, msg string) string {
	r := getRecorder(id, sub, "")
	return r.writeReplay(sub, c, msg)
}
