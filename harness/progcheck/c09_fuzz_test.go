package progcheck

import (
	"encoding/hex"
	"testing"

	"verifharness/pbt"
)

// Native coverage-guided fuzz targets for C09 (thorough tier only; `go test -fuzz`): raw
// program bytes through the tile and round-trip executors of the rapid check, i.e. with the
// same oracles (independent decoder; Assemble(Disassemble(p)) parses to the same sequence).
// A failing input is written as an ordinary replay file.

var c09FuzzSeeds = []string{
	"", "00", "51", "0101", "4c00", "4c0101", "4d0000", "4d010001", "4e00000000", "4e0100000001",
	"6300000000", "6405000000", "51630700000061", "0151640100000052", "4c4c", "4d4d4d", "4e4e4e4e4e", "63ffffffff", "64ffffff7f",
	"00140102030405060708090a0b0c0d0e0f1011121314", "6a0462637270010101516a", "b0b1b2b3", "616161ff",
}

func c09FuzzTarget(f *testing.F, sub string, exec func(c09Prog, *pbt.Ctx) error) {
	for _, s := range c09FuzzSeeds {
		b, _ := hex.DecodeString(s)
		f.Add(b)
	}
	f.Fuzz(func(t *testing.T, data []byte) {
		if len(data) > 4096 {
			return
		}
		c := c09Prog{Fam: "native-fuzz", Prog: hex.EncodeToString(data)}
		if err := exec(c, &pbt.Ctx{}); err != nil {
			path := pbt.WriteReplay("C09", sub, c, err.Error())
			t.Fatalf("FAILCASE property=C09 replay=%s\n%v", path, err)
		}
	})
}

func FuzzC09Tile(f *testing.F)      { c09FuzzTarget(f, "tile", c09ExecTile) }
func FuzzC09RoundTrip(f *testing.F) { c09FuzzTarget(f, "roundtrip", c09ExecRoundTrip) }
