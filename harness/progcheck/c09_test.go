package progcheck

import (
	"bytes"
	"crypto/ed25519"
	"encoding/binary"
	"encoding/hex"
	"fmt"
	"math/big"
	"os"
	"strings"
	"testing"

	"github.com/bytom/bytom/consensus/bcrp"
	"github.com/bytom/bytom/consensus/segwit"
	"github.com/bytom/bytom/protocol/vm"
	"github.com/bytom/bytom/protocol/vm/vmutil"
	"pgregory.net/rapid"

	"verifharness/pbt"
)

// C09: program parsing and assembly are consistent.
//
//  tile         ParseProgram fails, or the instructions tile the program, every Data is the
//               right sub-range and ParseOp agrees (oracle: the independent decoder c09RefParse)
//  roundtrip    Assemble(Disassemble(p)) parses to the same instruction sequence modulo push
//               encoding
//  recognisers  recognisers and builders of the standard program shapes agree both ways
//               (oracle: c09RefShape, the documented shapes over c09RefParse)
//
// VERIF_C09_SKIP=class,... (working aid only, default empty = nothing excluded) removes cases
// that carry the named feature from the judgement:
//   expansion, emptypush, badjump, hugepush  (roundtrip)
//   bcrpjump, bcrpnoncanon                   (recognisers)

func c09Skip(class string) bool {
	for _, s := range strings.Split(os.Getenv("VERIF_C09_SKIP"), ",") {
		if strings.TrimSpace(s) == class {
			return true
		}
	}
	return false
}

// ---------------------------------------------------------------------------------------
// reference decoder (independent of protocol/vm)

type c09Inst struct {
	Op    byte
	Start int
	Len   int
	Data  []byte // pushed data / 4 address bytes of a jump
	Push  bool   // the instruction pushes Data
	Jump  bool
}

// c09RefOp decodes the instruction at pc; ok=false when it does not fit in the program.
func c09RefOp(p []byte, pc int) (c09Inst, bool) {
	if pc < 0 || pc >= len(p) {
		return c09Inst{}, false
	}
	op := p[pc]
	in := c09Inst{Op: op, Start: pc, Len: 1}
	rest := len(p) - pc - 1 // bytes after the opcode
	take := func(hdr int, n uint64) (c09Inst, bool) {
		if uint64(rest) < uint64(hdr)+n {
			return c09Inst{}, false
		}
		in.Len = 1 + hdr + int(n)
		in.Data = p[pc+1+hdr : pc+1+hdr+int(n)]
		return in, true
	}
	switch {
	case op == 0x00:
		in.Push = true
		return in, true
	case op >= 0x01 && op <= 0x4b:
		in.Push = true
		return take(0, uint64(op))
	case op == 0x4c:
		in.Push = true
		if rest < 1 {
			return c09Inst{}, false
		}
		return take(1, uint64(p[pc+1]))
	case op == 0x4d:
		in.Push = true
		if rest < 2 {
			return c09Inst{}, false
		}
		return take(2, uint64(p[pc+1])|uint64(p[pc+2])<<8)
	case op == 0x4e:
		in.Push = true
		if rest < 4 {
			return c09Inst{}, false
		}
		return take(4, uint64(p[pc+1])|uint64(p[pc+2])<<8|uint64(p[pc+3])<<16|uint64(p[pc+4])<<24)
	case op >= 0x51 && op <= 0x60:
		in.Push = true
		in.Data = []byte{op - 0x50}
		return in, true
	case op == 0x63 || op == 0x64:
		in.Jump = true
		if rest < 4 {
			return c09Inst{}, false
		}
		in.Len = 5
		in.Data = p[pc+1 : pc+5] // the address bytes
		return in, true
	}
	return in, true
}

func c09RefParse(p []byte) ([]c09Inst, bool) {
	var out []c09Inst
	for pc := 0; pc < len(p); {
		in, ok := c09RefOp(p, pc)
		if !ok {
			return out, false // out = the parsable prefix
		}
		out = append(out, in)
		pc += in.Len
	}
	return out, true
}

func c09IsExpansion(op byte) bool { return strings.HasPrefix(vm.Op(op).String(), "NOPx") }

// ---------------------------------------------------------------------------------------
// program grammar shared by the generators

type c09Elem struct {
	kind int // 0 opcode, 1 push, 2 jump, 3 raw bytes
	op   byte
	data []byte
	enc  int // push encoding: 0 canonical, 1/2/4 = PUSHDATA1/2/4, 5 = OP_1..OP_16 (op holds the opcode)
	// jump target: 0 = start of element jidx (jidx == n: end), 1 = joff bytes into element jidx,
	// 2 = joff bytes past the end, 3 = absolute joff
	jkind, jidx int
	joff        uint32
}

func c09EncodePush(data []byte, enc int) []byte {
	switch enc {
	case 1:
		return append([]byte{0x4c, byte(len(data))}, data...)
	case 2:
		return append([]byte{0x4d, byte(len(data)), byte(len(data) >> 8)}, data...)
	case 4:
		var b [4]byte
		binary.LittleEndian.PutUint32(b[:], uint32(len(data)))
		return append(append([]byte{0x4e}, b[:]...), data...)
	}
	// canonical (same table as the BCRP documentation)
	l := len(data)
	switch {
	case l == 0:
		return []byte{0x00}
	case l <= 75:
		return append([]byte{byte(l)}, data...)
	case l < 256:
		return c09EncodePush(data, 1)
	case l < 65536:
		return c09EncodePush(data, 2)
	}
	return c09EncodePush(data, 4)
}

func c09ElemLen(e c09Elem) int {
	switch e.kind {
	case 0:
		return 1
	case 1:
		if e.enc == 5 {
			return 1
		}
		return len(c09EncodePush(e.data, e.enc))
	case 2:
		return 5
	}
	return len(e.data)
}

func c09Layout(es []c09Elem) []byte {
	starts := make([]int, len(es)+1)
	for i, e := range es {
		starts[i+1] = starts[i] + c09ElemLen(e)
	}
	total := starts[len(es)]
	var out []byte
	for _, e := range es {
		switch e.kind {
		case 0:
			out = append(out, e.op)
		case 1:
			if e.enc == 5 {
				out = append(out, e.op)
			} else {
				out = append(out, c09EncodePush(e.data, e.enc)...)
			}
		case 2:
			var addr uint32
			switch e.jkind {
			case 0:
				addr = uint32(starts[e.jidx%(len(es)+1)])
			case 1:
				i := e.jidx % len(es)
				l := starts[i+1] - starts[i]
				if l > 1 {
					addr = uint32(starts[i]) + 1 + e.joff%uint32(l-1)
				} else {
					addr = uint32(starts[i])
				}
			case 2:
				addr = uint32(total) + 1 + e.joff
			default:
				addr = e.joff
			}
			var b [4]byte
			binary.LittleEndian.PutUint32(b[:], addr)
			out = append(append(out, e.op), b[:]...)
		default:
			out = append(out, e.data...)
		}
	}
	return out
}

var c09NamedOps = []byte{0x61, 0x69, 0x6a, 0x6b, 0x6c, 0x6d, 0x6e, 0x75, 0x76, 0x7c, 0x7e, 0x82, 0x87, 0x88, 0x89, 0x8b, 0x93,
	0x9c, 0xa0, 0xa8, 0xaa, 0xab, 0xac, 0xad, 0xae, 0xc0, 0xc1, 0xc2, 0xc3, 0xc4, 0xc9, 0xca, 0xcb, 0xcd}

var c09ExpansionOps = []byte{0x4f, 0x50, 0x62, 0x65, 0x66, 0x67, 0x68, 0x8a, 0x8f, 0x90, 0xa6, 0xa7, 0xa9, 0xaf, 0xb0, 0xbf,
	0xc5, 0xc8, 0xcc, 0xce, 0xd0, 0xfe, 0xff}

var c09PushLens = []int{0, 1, 2, 4, 20, 32, 33, 74, 75, 76, 77, 255, 256, 257, 300}

func c09GenData(t *rapid.T, label string, maxLen int) []byte {
	var n int
	if rapid.IntRange(0, 3).Draw(t, label+"lk") == 0 {
		n = rapid.SampledFrom(c09PushLens).Draw(t, label+"lb")
	} else {
		n = rapid.IntRange(0, 40).Draw(t, label+"ln")
	}
	if n > maxLen {
		n = maxLen
	}
	// a short drawn pattern repeated: long data stays cheap to draw and to shrink
	pat := rapid.SliceOfN(rapid.Byte(), 1, 6).Draw(t, label+"pat")
	d := make([]byte, n)
	for i := range d {
		d[i] = pat[i%len(pat)]
	}
	return d
}

// c09GenElem draws one element of a well-formed program (jump targets are resolved by c09Layout
// modulo the number of elements, so that elements can be deleted by the shrinker).
func c09GenElem(t *rapid.T) c09Elem {
	switch rapid.IntRange(0, 11).Draw(t, "k") {
	case 0, 1:
		return c09Elem{kind: 0, op: rapid.SampledFrom(c09NamedOps).Draw(t, "op")}
	case 2:
		return c09Elem{kind: 0, op: rapid.SampledFrom(c09ExpansionOps).Draw(t, "xop")}
	case 3:
		// any single-byte opcode (everything that is not a push with payload or a jump)
		b := rapid.ByteRange(0x4f, 0xff).Draw(t, "any")
		if b == 0x63 || b == 0x64 {
			b = 0x61
		}
		return c09Elem{kind: 0, op: b}
	case 4, 5:
		return c09Elem{kind: 1, data: c09GenData(t, "d", 300)}
	case 6:
		enc := rapid.SampledFrom([]int{1, 2, 4}).Draw(t, "enc")
		max := 300
		if enc == 1 {
			max = 255
		}
		return c09Elem{kind: 1, enc: enc, data: c09GenData(t, "d", max)}
	case 7:
		// empty PUSHDATA1/2/4 and OP_0
		return c09Elem{kind: 1, enc: rapid.SampledFrom([]int{0, 1, 2, 4}).Draw(t, "eenc")}
	case 8:
		return c09Elem{kind: 1, enc: 5, op: rapid.ByteRange(0x51, 0x60).Draw(t, "small")}
	}
	e := c09Elem{kind: 2, op: rapid.SampledFrom([]byte{0x63, 0x64}).Draw(t, "j")}
	switch rapid.IntRange(0, 9).Draw(t, "jk") {
	case 0, 1, 2, 3, 4:
		e.jkind = 0
		e.jidx = rapid.IntRange(0, 12).Draw(t, "ji")
	case 5, 6:
		e.jkind = 1
		e.jidx = rapid.IntRange(0, 12).Draw(t, "ji")
		e.joff = rapid.Uint32Range(0, 80).Draw(t, "jo")
	case 7, 8:
		e.jkind = 2
		e.joff = rapid.SampledFrom([]uint32{0, 1, 4, 255, 65536, 0x7ffffff0, 0xfffffff0}).Draw(t, "jp")
	default:
		e.jkind = 3
		e.joff = rapid.SampledFrom([]uint32{0, 1, 0x7fffffff, 0x80000000, 0xffffffff}).Draw(t, "ja")
	}
	return e
}

// c09GenElems draws a well-formed program as a list of elements.
func c09GenElems(t *rapid.T, maxElems int) []c09Elem {
	return rapid.SliceOfN(rapid.Custom(c09GenElem), 0, maxElems).Draw(t, "elems")
}

var c09HostileTails = [][]byte{
	{0x4c}, {0x4c, 0xff}, {0x4d}, {0x4d, 0x01}, {0x4d, 0xff, 0xff}, {0x4d, 0x00, 0x01, 0xaa},
	{0x4e}, {0x4e, 0x01, 0x00, 0x00}, {0x4e, 0xff, 0xff, 0xff, 0xff}, {0x4e, 0xff, 0xff, 0xff, 0xff, 0xaa},
	{0x4e, 0xff, 0xff, 0xff, 0x7f, 0xaa}, {0x4e, 0x00, 0x00, 0x00, 0x80}, {0x4e, 0xfb, 0xff, 0xff, 0xff, 1, 2, 3},
	{0x4e, 0x00, 0x00, 0x01, 0x00, 0xaa}, {0x63}, {0x64, 0x00, 0x00, 0x00}, {0x4b, 0x01}, {0x01},
}

type c09Prog struct {
	Fam  string `json:"fam"`
	Prog string `json:"prog"` // hex
}

func c09GenRaw(t *rapid.T) []byte {
	interesting := []byte{0x00, 0x01, 0x02, 0x4b, 0x4c, 0x4d, 0x4e, 0x4f, 0x51, 0x60, 0x61, 0x63, 0x64, 0x6a, 0xb0, 0xff}
	n := rapid.IntRange(0, 400).Draw(t, "rawlen")
	if rapid.IntRange(0, 2).Draw(t, "rawshort") > 0 {
		n %= 24
	}
	p := make([]byte, n)
	for i := range p {
		if rapid.Bool().Draw(t, "rb") {
			p[i] = rapid.SampledFrom(interesting).Draw(t, "ri")
		} else {
			p[i] = rapid.Byte().Draw(t, "rr")
		}
	}
	return p
}

func c09GenTile(t *rapid.T) c09Prog {
	switch rapid.IntRange(0, 9).Draw(t, "fam") {
	case 0, 1:
		return c09Prog{"raw", hex.EncodeToString(c09GenRaw(t))}
	case 2, 3:
		return c09Prog{"grammar", hex.EncodeToString(c09Layout(c09GenElems(t, 10)))}
	case 4, 5, 6:
		// truncated inside the last instruction, at every possible position
		es := c09GenElems(t, 6)
		last := c09Elem{kind: 1, enc: rapid.SampledFrom([]int{0, 1, 2, 4}).Draw(t, "lastenc"), data: c09GenData(t, "last", 300)}
		if rapid.IntRange(0, 5).Draw(t, "lastjump") == 0 {
			last = c09Elem{kind: 2, op: 0x63, jkind: 3}
		}
		p := c09Layout(append(es, last))
		ll := c09ElemLen(last)
		keep := 0
		if ll > 1 {
			keep = rapid.IntRange(1, ll-1).Draw(t, "keep") // bytes of the last instruction that remain (never all)
		}
		if rapid.Bool().Draw(t, "hdronly") && keep > 5 {
			keep = keep%5 + 1
		}
		if ll <= 1 {
			return c09Prog{"grammar", hex.EncodeToString(p)}
		}
		return c09Prog{"truncated", hex.EncodeToString(p[:len(p)-ll+keep])}
	case 7:
		es := c09GenElems(t, 6)
		tail := rapid.SampledFrom(c09HostileTails).Draw(t, "tail")
		return c09Prog{"hostile-tail", hex.EncodeToString(c09Layout(append(es, c09Elem{kind: 3, data: tail})))}
	default:
		p := c09Layout(c09GenElems(t, 8))
		if len(p) > 0 {
			i := rapid.IntRange(0, len(p)-1).Draw(t, "mpos")
			p[i] = rapid.Byte().Draw(t, "mbyte")
		}
		return c09Prog{"grammar-mutated", hex.EncodeToString(p)}
	}
}

func c09SameBytes(a, b []byte) bool { return bytes.Equal(a, b) } // nil == empty (DESIGN 4.1)

func c09DescribeVM(in vm.Instruction) string {
	return fmt.Sprintf("{op=%02x len=%d data=%x}", byte(in.Op), in.Len, in.Data)
}

func c09DescribeRef(in c09Inst) string {
	return fmt.Sprintf("{op=%02x len=%d data=%x}", in.Op, in.Len, in.Data)
}

func c09AgreeInst(got vm.Instruction, want c09Inst) bool {
	return byte(got.Op) == want.Op && int64(got.Len) == int64(want.Len) && c09SameBytes(got.Data, want.Data)
}

// c09Features labels a program by the reference decoder (used for classes in every sub-check).
type c09Feat struct {
	nInst                                        int
	jump, expansion, emptyPushN, badJump, parsed bool
	hugePush                                     bool // a push of >= 32767 bytes
	jumpKinds                                    []string
	pushForms                                    []string
}

func c09Features(p []byte) c09Feat {
	insts, ok := c09RefParse(p)
	f := c09Feat{nInst: len(insts), parsed: ok}
	starts := map[uint32]bool{uint32(len(p)): true}
	for _, in := range insts {
		starts[uint32(in.Start)] = true
	}
	for _, in := range insts {
		if in.Push && len(in.Data) >= 32767 {
			f.hugePush = true
		}
		switch {
		case in.Jump:
			f.jump = true
			addr := binary.LittleEndian.Uint32(in.Data)
			switch {
			case addr == uint32(len(p)):
				f.jumpKinds = append(f.jumpKinds, "jump:end")
			case starts[addr]:
				f.jumpKinds = append(f.jumpKinds, "jump:boundary")
			case addr < uint32(len(p)):
				f.jumpKinds = append(f.jumpKinds, "jump:interior")
				f.badJump = true
			default:
				f.jumpKinds = append(f.jumpKinds, "jump:past-end")
				f.badJump = true
			}
		case in.Op == 0x4c || in.Op == 0x4d || in.Op == 0x4e:
			f.pushForms = append(f.pushForms, fmt.Sprintf("pushdata%d", map[byte]int{0x4c: 1, 0x4d: 2, 0x4e: 4}[in.Op]))
			if len(in.Data) == 0 {
				f.emptyPushN = true
			}
		case in.Push:
		default:
			if c09IsExpansion(in.Op) {
				f.expansion = true
			}
		}
	}
	return f
}

func (f c09Feat) classes(x *pbt.Ctx, sub string) {
	seen := map[string]bool{}
	add := func(s string) {
		if !seen[s] {
			seen[s] = true
			x.Class(sub + "/" + s)
		}
	}
	for _, k := range f.jumpKinds {
		add(k)
	}
	for _, k := range f.pushForms {
		add(k)
	}
	if f.expansion {
		add("expansion-op")
	}
	if f.emptyPushN {
		add("empty-pushdataN")
	}
	if f.hugePush {
		add("push>=32767")
	}
}

// ---------------------------------------------------------------------------------------
// (i) tile

func c09ExecTile(c c09Prog, x *pbt.Ctx) error {
	p, err := hex.DecodeString(c.Prog)
	if err != nil {
		return nil
	}
	x.Class("tile/fam:" + c.Fam)
	want, wantOK := c09RefParse(p)
	f := c09Features(p)
	f.classes(x, "tile")
	x.NonTrivial = f.nInst >= 3 || f.jump

	got, perr := vm.ParseProgram(p)
	if perr != nil {
		x.Class("tile/parse-fails")
		if wantOK {
			return fmt.Errorf("tile: ParseProgram(%x) fails (%v) although the program is tiled exactly by %d well-formed instructions", p, perr, len(want))
		}
	} else {
		x.Class("tile/parse-ok")
		// the statement itself: lengths tile the program ...
		var sum uint64
		for i, in := range got {
			if in.Len == 0 {
				return fmt.Errorf("tile: ParseProgram(%x): instruction %d has Len 0", p, i)
			}
			sum += uint64(in.Len)
		}
		if sum != uint64(len(p)) {
			return fmt.Errorf("tile: ParseProgram(%x) succeeded but the instruction lengths sum to %d, program has %d bytes", p, sum, len(p))
		}
		// ... and every instruction is the one encoded at its position, Data being its payload range
		if !wantOK || len(got) != len(want) {
			return fmt.Errorf("tile: ParseProgram(%x) yields %d instructions; reference decoding: ok=%v, %d instructions", p, len(got), wantOK, len(want))
		}
		for i := range got {
			if !c09AgreeInst(got[i], want[i]) {
				return fmt.Errorf("tile: ParseProgram(%x) instruction %d at offset %d is %s, the bytes encode %s", p, i, want[i].Start, c09DescribeVM(got[i]), c09DescribeRef(want[i]))
			}
		}
	}
	// ParseOp at every position (instruction boundaries included) agrees with the decoding at that position
	isStart := map[int]bool{}
	if wantOK {
		for _, in := range want {
			isStart[in.Start] = true
		}
	}
	for pc := 0; pc <= len(p)+1; pc++ {
		gi, gerr := vm.ParseOp(p, uint32(pc))
		wi, wok := c09RefOp(p, pc)
		where := "position"
		if isStart[pc] {
			where = "instruction boundary"
		}
		if (gerr == nil) != wok {
			return fmt.Errorf("tile: ParseOp(%x, %d) at %s: err=%v, reference decodable=%v", p, pc, where, gerr, wok)
		}
		if wok && !c09AgreeInst(gi, wi) {
			return fmt.Errorf("tile: ParseOp(%x, %d) at %s = %s, the bytes encode %s", p, pc, where, c09DescribeVM(gi), c09DescribeRef(wi))
		}
	}
	return nil
}

// ---------------------------------------------------------------------------------------
// (ii) round trip

type c09Norm struct {
	Push bool
	Data string
	Op   byte
	Tgt  string // jumps: "inst#i" when the target is an instruction boundary (or the end), else ""
	Addr uint32 // jumps: the literal operand
	Jump bool
}

// c09Same: pushes by data, opcodes by value.  A jump whose target was an instruction boundary must
// still designate that boundary (pushes before it may have been re-encoded); any other target
// (interior of an instruction, past the end) names no instruction and is compared literally.
func c09Same(orig, got c09Norm) bool {
	if orig.Jump || got.Jump {
		if orig.Jump != got.Jump || orig.Op != got.Op {
			return false
		}
		if orig.Tgt != "" {
			return got.Tgt == orig.Tgt
		}
		return got.Addr == orig.Addr
	}
	return orig == got
}

func c09IsPushOp(op vm.Op) bool { return op <= vm.OP_PUSHDATA4 || (op >= vm.OP_1 && op <= vm.OP_16) }

// c09Normalise maps a parsed program to the encoding independent instruction sequence: pushes by
// their data, jumps by the instruction they designate (index of the boundary; a target that is no
// boundary is kept as its literal address).
func c09Normalise(insts []vm.Instruction) []c09Norm {
	starts := make([]uint32, len(insts)+1)
	for i, in := range insts {
		starts[i+1] = starts[i] + in.Len
	}
	total := starts[len(insts)]
	out := make([]c09Norm, 0, len(insts))
	for _, in := range insts {
		switch {
		case in.Op == vm.OP_JUMP || in.Op == vm.OP_JUMPIF:
			addr := binary.LittleEndian.Uint32(in.Data)
			tgt := ""
			// a target on an instruction boundary (or the end) designates that instruction: pushes
			// before it may be re-encoded, so it is compared by index.  Any other target (interior
			// of an instruction, past the end) names no instruction; there the instruction is its
			// literal 4-byte operand, compared as is.
			for i := range starts {
				if starts[i] == addr {
					tgt = fmt.Sprintf("inst#%d", i)
				}
			}
			_ = total
			out = append(out, c09Norm{Op: byte(in.Op), Tgt: tgt, Addr: addr, Jump: true})
			continue
			out = append(out, c09Norm{Op: byte(in.Op), Tgt: tgt})
		case c09IsPushOp(in.Op):
			out = append(out, c09Norm{Push: true, Data: hex.EncodeToString(in.Data)})
		default:
			out = append(out, c09Norm{Op: byte(in.Op)})
		}
	}
	return out
}

func (n c09Norm) String() string {
	switch {
	case n.Push:
		return "push(" + n.Data + ")"
	case n.Jump:
		return fmt.Sprintf("%s->%s(addr %d)", vm.Op(n.Op), n.Tgt, n.Addr)
	}
	return vm.Op(n.Op).String()
}

// c09GenManyJumps: 1..70 JUMP/JUMPIF instructions whose targets are distinct instruction
// boundaries (so every one gets its own label), mixed with one-byte opcodes and pushes.
func c09GenManyJumps(t *rapid.T) []byte {
	n := rapid.SampledFrom([]int{1, 5, 25, 26, 27, 28, 40, 52, 53, 54, 70}).Draw(t, "njumps")
	if rapid.Bool().Draw(t, "anyn") {
		n = rapid.IntRange(1, 70).Draw(t, "njumpsany")
	}
	// layout first: a list of instruction lengths, then fill in targets
	type ins struct {
		jump bool
		op   byte
		data []byte
	}
	var prog []ins
	for i := 0; i < n; i++ {
		op := byte(0x63)
		if rapid.Bool().Draw(t, "jif") {
			op = 0x64
		}
		prog = append(prog, ins{jump: true, op: op})
		switch rapid.IntRange(0, 3).Draw(t, "filler") {
		case 0:
			prog = append(prog, ins{op: 0x51})
		case 1:
			prog = append(prog, ins{op: 0x02, data: []byte{0xaa, 0xbb}})
		}
	}
	starts := []uint32{0}
	for _, in := range prog {
		l := uint32(1 + len(in.data))
		if in.jump {
			l = 5
		}
		starts = append(starts, starts[len(starts)-1]+l)
	}
	// distinct boundary targets: a permutation of the boundaries (incl. the end), one per jump
	perm := rapid.Permutation(starts).Draw(t, "targets")
	var out []byte
	k := 0
	for _, in := range prog {
		out = append(out, in.op)
		if in.jump {
			tgt := perm[k%len(perm)]
			k++
			out = append(out, byte(tgt), byte(tgt>>8), byte(tgt>>16), byte(tgt>>24))
		} else {
			out = append(out, in.data...)
		}
	}
	return out
}

func c09GenRoundTrip(t *rapid.T) c09Prog {
	switch rapid.IntRange(0, 9).Draw(t, "fam") {
	case 3:
		return c09Prog{"many-jumps", hex.EncodeToString(c09GenManyJumps(t))}
	case 0:
		return c09Prog{"raw", hex.EncodeToString(c09GenRaw(t))}
	case 2:
		// the standard programs of the builders (all contract length classes)
		if p, err := c09GenBuilt(t).build(); err == nil {
			return c09Prog{"standard", hex.EncodeToString(p)}
		}
		return c09Prog{"standard", ""}
	case 1:
		// single instruction programs: every opcode value gets its turn
		es := []c09Elem{{kind: 3, data: []byte{rapid.Byte().Draw(t, "single")}}}
		p := c09Layout(es)
		if in, ok := c09RefOp(append(p, make([]byte, 80)...), 0); ok && in.Len > 1 {
			p = append(p, make([]byte, in.Len-1)...) // zero payload of the right size (PUSHDATAn: empty)
		}
		return c09Prog{"single", hex.EncodeToString(p)}
	default:
		return c09Prog{"grammar", hex.EncodeToString(c09Layout(c09GenElems(t, 10)))}
	}
}

func c09ExecRoundTrip(c c09Prog, x *pbt.Ctx) error {
	p, err := hex.DecodeString(c.Prog)
	if err != nil {
		return nil
	}
	x.Class("roundtrip/fam:" + c.Fam)
	insts, perr := vm.ParseProgram(p)
	if perr != nil {
		x.Class("roundtrip/unparsable(not a case)")
		return nil
	}
	f := c09Features(p)
	f.classes(x, "roundtrip")
	x.NonTrivial = f.nInst >= 3 || f.jump
	var feats []string
	for _, fe := range []struct {
		on   bool
		name string
	}{{f.expansion, "expansion"}, {f.emptyPushN, "emptypush"}, {f.badJump, "badjump"}, {f.hugePush, "hugepush"}} {
		if fe.on {
			feats = append(feats, fe.name)
			if c09Skip(fe.name) {
				x.Class("roundtrip/SKIPPED:" + fe.name)
				return nil
			}
		}
	}
	ctx := fmt.Sprintf("program %s [features: %s]", c09Short(p), strings.Join(feats, ","))
	if len(p) > 1000 {
		x.Sample = c09Prog{c.Fam, c09Short(p)}
	}
	text, derr := vm.Disassemble(p)
	if derr != nil {
		return fmt.Errorf("roundtrip: %s parses (%d instructions) but Disassemble fails: %v", ctx, len(insts), derr)
	}
	q, aerr := vm.Assemble(text)
	if aerr != nil {
		return fmt.Errorf("roundtrip: %s disassembles to %q which Assemble rejects: %v", ctx, c09ShortText(text), aerr)
	}
	insts2, perr2 := vm.ParseProgram(q)
	if perr2 != nil {
		return fmt.Errorf("roundtrip: %s -> %q -> %s which does not parse: %v", ctx, c09ShortText(text), c09Short(q), perr2)
	}
	a, b := c09Normalise(insts), c09Normalise(insts2)
	if len(a) != len(b) {
		return fmt.Errorf("roundtrip: %s -> %q -> %s: %d instructions became %d", ctx, c09ShortText(text), c09Short(q), len(a), len(b))
	}
	for i := range a {
		if !c09Same(a[i], b[i]) {
			return fmt.Errorf("roundtrip: %s -> %q -> %s: instruction %d was %s, is %s", ctx, c09ShortText(text), c09Short(q), i, c09ShortText(a[i].String()), c09ShortText(b[i].String()))
		}
	}
	if bytes.Equal(p, q) {
		x.Class("roundtrip/byte-identical")
	} else {
		x.Class("roundtrip/re-encoded")
	}
	return nil
}

// ---------------------------------------------------------------------------------------
// (iii) recognisers and builders

type c09Rec struct {
	Kind   string   `json:"kind"`             // builder, or "raw"
	Hash   string   `json:"hash,omitempty"`   // hex: hash / comment argument
	Keys   []string `json:"keys,omitempty"`   // hex public keys
	M      int      `json:"m,omitempty"`      // quorum
	Height uint64   `json:"height,omitempty"` // block height argument
	CLen   int      `json:"clen,omitempty"`   // contract: length ...
	CPat   string   `json:"cpat,omitempty"`   // ... and repeated pattern (hex)
	Raw    string   `json:"raw,omitempty"`    // kind raw: the program (hex)
	Mut    string   `json:"mut,omitempty"`    // "", sub, ins, del: one-byte mutation of the built program
	Pos    int      `json:"pos,omitempty"`    // position (mod length)
	Byte   int      `json:"byte,omitempty"`
}

var c09Builders = []string{"P2WPKH", "P2WSH", "Register", "Call", "Retire", "Coinbase", "P2PKHSig", "P2SH", "MultiSig", "MultiSigHeight"}

var c09ContractLens = []int{1, 75, 76, 255, 256, 65535, 65536}

func (c c09Rec) contract() []byte {
	pat, _ := hex.DecodeString(c.CPat)
	if len(pat) == 0 {
		pat = []byte{0}
	}
	d := make([]byte, c.CLen)
	for i := range d {
		d[i] = pat[i%len(pat)]
	}
	return d
}

func (c c09Rec) build() ([]byte, error) {
	h, _ := hex.DecodeString(c.Hash)
	var keys []ed25519.PublicKey
	for _, k := range c.Keys {
		b, _ := hex.DecodeString(k)
		keys = append(keys, ed25519.PublicKey(b))
	}
	switch c.Kind {
	case "raw":
		return hex.DecodeString(c.Raw)
	case "P2WPKH":
		return vmutil.P2WPKHProgram(h)
	case "P2WSH":
		return vmutil.P2WSHProgram(h)
	case "Register":
		return vmutil.RegisterProgram(c.contract())
	case "Call":
		return vmutil.CallContractProgram(h)
	case "Retire":
		return vmutil.RetireProgram(h)
	case "Coinbase":
		return vmutil.DefaultCoinbaseProgram()
	case "P2PKHSig":
		return vmutil.P2PKHSigProgram(h)
	case "P2SH":
		return vmutil.P2SHProgram(h)
	case "MultiSig":
		return vmutil.P2SPMultiSigProgram(keys, c.M)
	case "MultiSigHeight":
		return vmutil.P2SPMultiSigProgramWithHeight(keys, c.M, c.Height)
	}
	return nil, fmt.Errorf("unknown kind %q", c.Kind)
}

func c09GenHash(t *rapid.T) string {
	var n int
	switch rapid.IntRange(0, 5).Draw(t, "hk") {
	case 0, 1:
		n = 20
	case 2, 3:
		n = 32
	default:
		n = rapid.SampledFrom([]int{0, 1, 4, 19, 21, 31, 33, 64, 75, 76}).Draw(t, "hl")
	}
	return hex.EncodeToString(rapid.SliceOfN(rapid.Byte(), n, n).Draw(t, "hash"))
}

func c09GenBuilt(t *rapid.T) c09Rec {
	c := c09Rec{Kind: rapid.SampledFrom(c09Builders).Draw(t, "kind")}
	switch c.Kind {
	case "P2WPKH", "P2WSH", "Call", "Retire", "P2PKHSig", "P2SH":
		c.Hash = c09GenHash(t)
		if c.Kind == "Call" && rapid.IntRange(0, 2).Draw(t, "call32") > 0 {
			c.Hash = hex.EncodeToString(rapid.SliceOfN(rapid.Byte(), 32, 32).Draw(t, "hash32"))
		}
	case "Register":
		switch rapid.IntRange(0, 9).Draw(t, "ck") {
		case 0:
			c.CLen = rapid.IntRange(0, 300).Draw(t, "clen")
		case 1:
			c.CLen = rapid.SampledFrom([]int{0, 2, 74, 77, 254, 257, 65534, 65537}).Draw(t, "cnear")
		default:
			c.CLen = rapid.SampledFrom(c09ContractLens).Draw(t, "cclass")
		}
		c.CPat = hex.EncodeToString(rapid.SliceOfN(rapid.Byte(), 1, 5).Draw(t, "cpat"))
	case "MultiSig", "MultiSigHeight":
		n := rapid.IntRange(1, 6).Draw(t, "nkeys")
		for i := 0; i < n; i++ {
			c.Keys = append(c.Keys, hex.EncodeToString(rapid.SliceOfN(rapid.Byte(), 32, 32).Draw(t, "key")))
		}
		c.M = rapid.IntRange(1, n).Draw(t, "m")
		if c.Kind == "MultiSigHeight" {
			switch rapid.IntRange(0, 3).Draw(t, "hk") {
			case 0:
				c.Height = uint64(rapid.IntRange(0, 17).Draw(t, "hsmall"))
			case 1:
				c.Height = rapid.SampledFrom([]uint64{127, 128, 255, 256, 65535, 65536, 1<<32 - 1, 1 << 32, 1<<63 - 1, 1 << 63, 1<<64 - 1}).Draw(t, "hb")
			default:
				c.Height = rapid.Uint64().Draw(t, "h")
			}
		}
	}
	return c
}

// c09GenVariant builds near misses of the standard shapes element by element: the skeleton of a
// shape with one or two elements replaced (other opcode, other push encoding, other data, a jump
// carrying the payload, an element dropped or added).
func c09GenVariant(t *rapid.T) c09Rec {
	push := func(d []byte) c09Elem { return c09Elem{kind: 1, data: d} }
	dataN := func(label string, n int) []byte { return rapid.SliceOfN(rapid.Byte(), n, n).Draw(t, label) }
	var es []c09Elem
	shape := rapid.SampledFrom([]string{"p2wpkh", "p2wsh", "bcrp", "bcrp", "bcrp", "call", "straight"}).Draw(t, "shape")
	switch shape {
	case "p2wpkh":
		es = []c09Elem{push(nil), push(dataN("h", 20))}
	case "p2wsh":
		es = []c09Elem{push(nil), push(dataN("h", 32))}
	case "bcrp":
		n := rapid.SampledFrom([]int{1, 2, 4, 5, 16, 75, 76, 255, 256}).Draw(t, "cl")
		es = []c09Elem{{kind: 0, op: 0x6a}, push([]byte("bcrp")), push([]byte{1}), push(dataN("c", n))}
	case "call":
		es = []c09Elem{push([]byte("bcrp")), push(dataN("h", 32))}
	default:
		es = []c09Elem{{kind: 0, op: rapid.SampledFrom([]byte{0x51, 0x6a}).Draw(t, "sop")}}
	}
	nmut := rapid.IntRange(0, 2).Draw(t, "nmut")
	for k := 0; k < nmut && len(es) > 0; k++ {
		l := fmt.Sprintf("v%d", k)
		i := rapid.IntRange(0, len(es)-1).Draw(t, l+"i")
		e := es[i]
		switch rapid.IntRange(0, 8).Draw(t, l+"how") {
		case 0: // other encoding of the same push
			if e.kind == 1 {
				e.enc = rapid.SampledFrom([]int{1, 2, 4}).Draw(t, l+"enc")
			}
		case 1: // small-integer opcode in place of a push
			e = c09Elem{kind: 1, enc: 5, op: rapid.ByteRange(0x51, 0x60).Draw(t, l+"small")}
		case 2: // jump carrying 4 payload bytes
			d := e.data
			if len(d) < 4 {
				d = append(append([]byte{}, d...), 0, 0, 0, 0)
			}
			e = c09Elem{kind: 2, op: rapid.SampledFrom([]byte{0x63, 0x64}).Draw(t, l+"j"), jkind: 3, joff: binary.LittleEndian.Uint32(d[:4])}
		case 3: // other opcode
			e = c09Elem{kind: 0, op: rapid.SampledFrom([]byte{0x00, 0x51, 0x52, 0x61, 0x69, 0x6a, 0xb0}).Draw(t, l+"op")}
		case 4: // other data length
			if e.kind == 1 {
				d := append([]byte{}, e.data...)
				if rapid.Bool().Draw(t, l+"grow") || len(d) == 0 {
					d = append(d, rapid.Byte().Draw(t, l+"gb"))
				} else {
					d = d[:len(d)-1]
				}
				e.data = d
			}
		case 5: // other data content
			if e.kind == 1 && len(e.data) > 0 {
				d := append([]byte{}, e.data...)
				d[rapid.IntRange(0, len(d)-1).Draw(t, l+"dp")] ^= byte(rapid.IntRange(1, 255).Draw(t, l+"dx"))
				e.data = d
			}
		case 6: // drop
			es = append(es[:i:i], es[i+1:]...)
			continue
		case 7: // add an element after
			extra := c09Elem{kind: 0, op: rapid.SampledFrom([]byte{0x00, 0x51, 0x61, 0x6a}).Draw(t, l+"xop")}
			es = append(es[:i+1:i+1], append([]c09Elem{extra}, es[i+1:]...)...)
			continue
		default: // swap with the neighbour
			if i+1 < len(es) {
				es[i], es[i+1] = es[i+1], es[i]
			}
			continue
		}
		es[i] = e
	}
	return c09Rec{Kind: "raw", Raw: hex.EncodeToString(c09Layout(es))}
}

func c09GenRec(t *rapid.T) c09Rec {
	switch rapid.IntRange(0, 9).Draw(t, "fam") {
	case 0, 1, 2:
		return c09GenBuilt(t)
	case 3, 4, 5:
		return c09GenVariant(t)
	case 6:
		return c09Rec{Kind: "raw", Raw: hex.EncodeToString(c09Layout(c09GenElems(t, 5)))}
	default:
		c := c09GenBuilt(t)
		c.Mut = rapid.SampledFrom([]string{"sub", "sub", "sub", "ins", "del"}).Draw(t, "mut")
		switch rapid.IntRange(0, 2).Draw(t, "posk") {
		case 0:
			c.Pos = rapid.IntRange(0, 12).Draw(t, "poshead")
		case 1:
			c.Pos = -1 - rapid.IntRange(0, 3).Draw(t, "postail") // counted from the end
		default:
			c.Pos = rapid.IntRange(0, 70000).Draw(t, "pos")
		}
		if rapid.Bool().Draw(t, "bk") {
			c.Byte = int(rapid.SampledFrom([]byte{0x00, 0x01, 0x04, 0x14, 0x20, 0x4c, 0x4d, 0x4e, 0x51, 0x60, 0x63, 0x64, 0x6a}).Draw(t, "bi"))
		} else {
			c.Byte = int(rapid.Byte().Draw(t, "b"))
		}
		return c
	}
}

// c09Shape is what the documented shapes say about a program (over the reference decoder).
type c09Shape struct {
	p2wpkh, p2wsh, straight, bcrp, call, unspendable bool
	hash, contract                                   []byte
	height                                           uint64
	// how a program that is not of the BCRP shape differs from it when only the carrier of the
	// contract deviates: "jump" (JUMP/JUMPIF payload) or "noncanon" (push not encoded as documented)
	bcrpNear string
}

func c09RefShape(p []byte) c09Shape {
	var s c09Shape
	s.unspendable = len(p) > 0 && p[0] == 0x6a // "absolute failed": the first opcode is FAIL
	in, ok := c09RefParse(p)
	if !ok {
		return s
	}
	is := func(i c09Inst, op byte, n int) bool { return i.Op == op && len(i.Data) == n }
	if len(in) == 1 && (in[0].Op == 0x51 || in[0].Op == 0x6a) {
		s.straight = true
	}
	if len(in) == 2 && in[0].Op == 0x00 {
		if is(in[1], 0x14, 20) {
			s.p2wpkh, s.hash = true, in[1].Data
		}
		if is(in[1], 0x20, 32) {
			s.p2wsh, s.hash = true, in[1].Data
		}
	}
	if len(in) == 2 && is(in[0], 0x04, 4) && string(in[0].Data) == "bcrp" && is(in[1], 0x20, 32) {
		s.call, s.hash = true, in[1].Data
	}
	// OP_FAIL + OP_DATA_4 "bcrp" + OP_DATA_1 0x01 + {dynamic_op by the documented length table} + contract, 0 < len
	if len(in) == 4 && in[0].Op == 0x6a && is(in[1], 0x04, 4) && string(in[1].Data) == "bcrp" && is(in[2], 0x01, 1) && in[2].Data[0] == 1 {
		c := in[3]
		if len(c.Data) > 0 {
			canon := c.Push && c.Op == c09EncodePush(c.Data, 0)[0] && !(c.Op >= 0x51 && c.Op <= 0x60)
			switch {
			case canon:
				s.bcrp, s.contract = true, c.Data
			case c.Jump:
				s.bcrpNear = "jump"
			default:
				s.bcrpNear = "noncanon"
			}
		}
	}
	// height-restricted issuance program: <push height> BLOCKHEIGHT GREATERTHAN VERIFY ...
	if len(in) >= 4 && in[0].Push && in[1].Op == 0xcd && in[2].Op == 0xa0 && in[3].Op == 0x69 {
		d := in[0].Data
		if len(d) <= 32 {
			be := make([]byte, len(d))
			for i := range d {
				be[len(d)-1-i] = d[i]
			}
			v := new(big.Int).SetBytes(be)
			if v.BitLen() <= 64 {
				s.height = v.Uint64()
			}
		}
	}
	return s
}

func c09Mutate(p []byte, c c09Rec) []byte {
	if c.Mut == "" || len(p) == 0 {
		return p
	}
	pos := c.Pos
	if pos < 0 {
		pos = len(p) + pos
		if pos < 0 {
			pos = 0
		}
	}
	b := byte(c.Byte)
	out := append([]byte{}, p...)
	switch c.Mut {
	case "sub":
		pos %= len(p)
		if out[pos] == b {
			b ^= 0x01
		}
		out[pos] = b
	case "ins":
		pos %= len(p) + 1
		out = append(out[:pos:pos], append([]byte{b}, p[pos:]...)...)
	case "del":
		pos %= len(p)
		out = append(out[:pos:pos], p[pos+1:]...)
	}
	return out
}

func c09ShortText(s string) string {
	if len(s) <= 300 {
		return s
	}
	return fmt.Sprintf("%s..(%d chars)..%s", s[:100], len(s), s[len(s)-40:])
}

func c09Short(p []byte) string {
	if len(p) <= 120 {
		return hex.EncodeToString(p)
	}
	return fmt.Sprintf("%x..(%d bytes)..%x", p[:24], len(p), p[len(p)-8:])
}

func c09ExecRec(c c09Rec, x *pbt.Ctx) error {
	built, err := c.build()
	if err != nil {
		// only jump resolution and multisig parameter checks can fail; the generator does not produce them
		return fmt.Errorf("recognisers: builder %s failed: %v", c.Kind, err)
	}
	p := c09Mutate(built, c)
	x.Class("rec/kind:" + c.Kind)
	if c.Mut != "" {
		x.Class("rec/mutated:" + c.Mut)
	}
	if c.Kind == "Register" {
		cl := "other"
		for _, n := range c09ContractLens {
			if n == c.CLen {
				cl = fmt.Sprint(n)
			}
		}
		x.Class("rec/clen:" + cl)
	}
	want := c09RefShape(p)
	f := c09Features(p)
	x.NonTrivial = c.Mut != "" || c.Kind == "raw" || f.nInst >= 3 || f.jump
	ctx := fmt.Sprintf("program %s (%s)", c09Short(p), c.Kind)
	if c.Mut != "" {
		ctx = fmt.Sprintf("program %s (%s output %s, one byte %s at %d)", c09Short(p), c.Kind, c09Short(built), c.Mut, c.Pos)
	}

	if want.bcrpNear != "" {
		x.Class("rec/bcrp-near:" + want.bcrpNear)
		if c09Skip("bcrp" + want.bcrpNear) {
			x.Class("rec/SKIPPED:bcrp" + want.bcrpNear)
			return nil
		}
	}

	// builder -> recogniser, stated from the builder's arguments (not through the reference shape)
	if c.Mut == "" && c.Kind != "raw" {
		h, _ := hex.DecodeString(c.Hash)
		switch {
		case c.Kind == "P2WPKH" && len(h) == 20, c.Kind == "P2WSH" && len(h) == 20:
			if !want.p2wpkh || !c09SameBytes(want.hash, h) {
				return fmt.Errorf("recognisers: %s: builder output is not OP_0 OP_DATA_20 <hash>", ctx)
			}
		case c.Kind == "P2WPKH" && len(h) == 32, c.Kind == "P2WSH" && len(h) == 32:
			if !want.p2wsh || !c09SameBytes(want.hash, h) {
				return fmt.Errorf("recognisers: %s: builder output is not OP_0 OP_DATA_32 <hash>", ctx)
			}
		case c.Kind == "Register" && c.CLen > 0:
			if !want.bcrp || !c09SameBytes(want.contract, c.contract()) {
				return fmt.Errorf("recognisers: %s: RegisterProgram output does not have the documented BCRP shape carrying the contract", ctx)
			}
		case c.Kind == "Call" && len(h) == 32:
			if !want.call || !c09SameBytes(want.hash, h) {
				return fmt.Errorf("recognisers: %s: CallContractProgram output does not have the documented shape", ctx)
			}
		case c.Kind == "Coinbase", c.Kind == "Retire" && len(h) == 0:
			if !want.straight {
				return fmt.Errorf("recognisers: %s: expected the single-opcode shape", ctx)
			}
		case c.Kind == "MultiSigHeight":
			if want.height != c.Height {
				return fmt.Errorf("recognisers: %s: reference reads height %d from a program built with height %d", ctx, want.height, c.Height)
			}
		}
		if (c.Kind == "Retire" || c.Kind == "Register") != want.unspendable {
			return fmt.Errorf("recognisers: %s: reference unspendable=%v", ctx, want.unspendable)
		}
	}

	// recognisers against the documented shape, both ways, for every program
	type verdict struct {
		name      string
		got, want bool
	}
	vs := []verdict{
		{"segwit.IsP2WPKHScript", segwit.IsP2WPKHScript(p), want.p2wpkh},
		{"segwit.IsP2WSHScript", segwit.IsP2WSHScript(p), want.p2wsh},
		{"segwit.IsStraightforward", segwit.IsStraightforward(p), want.straight},
		{"segwit.IsP2WScript", segwit.IsP2WScript(p), want.p2wpkh || want.p2wsh || want.straight},
		{"bcrp.IsBCRPScript", bcrp.IsBCRPScript(p), want.bcrp},
		{"bcrp.IsCallContractScript", bcrp.IsCallContractScript(p), want.call},
		{"vmutil.IsUnspendable", vmutil.IsUnspendable(p), want.unspendable},
	}
	nAccept := 0
	for _, v := range vs {
		if v.want {
			x.Class("rec/accept:" + v.name)
		}
		if v.name == "bcrp.IsBCRPScript" && v.got && !v.want && want.bcrpNear != "" {
			// known finding (known_findings.json): first three instructions are the documented
			// BCRP header and the 4th carries data, but is a JUMP/JUMPIF or a non-canonical push
			// instead of the documented push of the contract.  Exactly this shape is excluded;
			// every other disagreement still fails below.
			x.Known("bcrp-recogniser-accepts-noncanonical-carrier")
			continue
		}
		if v.got != v.want {
			extra := ""
			if v.name == "bcrp.IsBCRPScript" && want.bcrpNear != "" {
				extra = fmt.Sprintf(" [bcrp-near:%s: the 4th instruction carries data but is not the documented push of the contract]", want.bcrpNear)
			}
			return fmt.Errorf("recognisers: %s: %s = %v, documented shape says %v%s", ctx, v.name, v.got, v.want, extra)
		}
		if v.got && v.name != "segwit.IsP2WScript" && v.name != "vmutil.IsUnspendable" {
			nAccept++
		}
	}
	if nAccept > 1 {
		return fmt.Errorf("recognisers: %s: accepted by %d shape recognisers", ctx, nAccept)
	}
	if nAccept == 0 {
		x.Class("rec/accept:none")
	}
	if got := vmutil.GetIssuanceProgramRestrictHeight(p); got != want.height {
		return fmt.Errorf("recognisers: %s: GetIssuanceProgramRestrictHeight = %d, documented shape says %d", ctx, got, want.height)
	}
	if want.height != 0 {
		x.Class("rec/accept:restrict-height")
	}

	// extractors on recognised programs (as their callers use them)
	if want.p2wpkh || want.p2wsh {
		h, err := segwit.GetHashFromStandardProg(p)
		if err != nil || !c09SameBytes(h, want.hash) {
			return fmt.Errorf("recognisers: %s: GetHashFromStandardProg = %x, %v; want %x", ctx, h, err, want.hash)
		}
	}
	if want.p2wpkh {
		exp := append(append([]byte{0x76, 0xab, 0x14}, want.hash...), 0x88, 0xae, 0x7c, 0xac)
		got, err := segwit.ConvertP2PKHSigProgram(p)
		if err != nil || !bytes.Equal(got, exp) {
			return fmt.Errorf("recognisers: %s: ConvertP2PKHSigProgram = %x, %v; want DUP HASH160 <hash> EQUALVERIFY TXSIGHASH SWAP CHECKSIG = %x", ctx, got, err, exp)
		}
	}
	if want.p2wsh {
		exp := append(append([]byte{0x76, 0xaa, 0x20}, want.hash...), 0x88, 0x00, 0x7c, 0x00, 0xc0)
		got, err := segwit.ConvertP2SHProgram(p)
		if err != nil || !bytes.Equal(got, exp) {
			return fmt.Errorf("recognisers: %s: ConvertP2SHProgram = %x, %v; want DUP SHA3 <hash> EQUALVERIFY 0 SWAP 0 CHECKPREDICATE = %x", ctx, got, err, exp)
		}
	}
	if want.bcrp {
		got, err := bcrp.ParseContract(p)
		if err != nil || !c09SameBytes(got, want.contract) {
			return fmt.Errorf("recognisers: %s: ParseContract = %s, %v; want %s", ctx, c09Short(got), err, c09Short(want.contract))
		}
		// recogniser -> builder: the accepted program is what the builder makes of the extracted contract
		re, err := vmutil.RegisterProgram(got)
		if err != nil || !bytes.Equal(re, p) {
			return fmt.Errorf("recognisers: %s: RegisterProgram(ParseContract(p)) = %s, %v; differs from p", ctx, c09Short(re), err)
		}
	}
	if want.call {
		got, err := bcrp.ParseContractHash(p)
		if err != nil || !c09SameBytes(got[:], want.hash) {
			return fmt.Errorf("recognisers: %s: ParseContractHash = %x, %v; want %x", ctx, got, err, want.hash)
		}
		re, err := vmutil.CallContractProgram(got[:])
		if err != nil || !bytes.Equal(re, p) {
			return fmt.Errorf("recognisers: %s: CallContractProgram(ParseContractHash(p)) = %x, %v; differs from p", ctx, re, err)
		}
	}
	return nil
}

// ---------------------------------------------------------------------------------------

func TestC09(t *testing.T) {
	pbt.Run(t, "C09",
		"byte strings 0..400 bytes: raw (half of the bytes from a list of opcode values of interest), grammar-built well-formed programs (named/expansion opcodes, canonical and explicit PUSHDATA1/2/4 pushes incl. empty, OP_n, JUMP/JUMPIF to boundaries, interiors, past the end), the same truncated at every position inside the last instruction, with hostile PUSHDATA/JUMP tails, and with one byte replaced; oracle: independent decoder; also ParseOp at every position; completeness (a well-formed program must parse) is asserted too; non-trivial = >= 3 instructions in the parsable prefix or a jump; distinct by program bytes",
		pbt.Options{Sub: "tile", Checks: pbt.Per(120000, 20000000),
			MinClass: map[string]int{"tile/fam:truncated": 1000, "tile/pushdata1": 500, "tile/pushdata2": 500, "tile/pushdata4": 500,
				"tile/jump:boundary": 500, "tile/jump:interior": 200, "tile/jump:past-end": 200, "tile/expansion-op": 500, "tile/parse-fails": 1000, "tile/parse-ok": 1000}},
		c09GenTile, c09ExecTile)

	pbt.Run(t, "C09",
		"parsable programs (grammar-built as in tile, every single-instruction program, raw bytes that happen to parse): Assemble(Disassemble(p)) must exist and parse to the same sequence, pushes compared by data, opcodes by value, jumps by the instruction their target designates; non-trivial = >= 3 instructions or a jump; distinct by program bytes",
		pbt.Options{Sub: "roundtrip", Checks: pbt.Per(80000, 14000000),
			MinClass: map[string]int{"roundtrip/jump:boundary": 300, "roundtrip/pushdata1": 300, "roundtrip/pushdata2": 300, "roundtrip/pushdata4": 300}},
		c09GenRoundTrip, c09ExecRoundTrip)

	pbt.Run(t, "C09",
		"programs from every vmutil builder over hashes of length 0..76 (mostly 20/32), 1..6 keys, heights, contracts of lengths {1,75,76,255,256,65535,65536} and neighbours; the same with one byte substituted/inserted/deleted (head, tail or anywhere); element-level near misses of each shape (other push encoding, OP_n, jump carrying the payload, other opcode/length/content, dropped/added/swapped element); small grammar programs. Every recogniser must answer what the documented shape (over the independent decoder) says, at most one shape recogniser accepts, extractors return the built arguments and rebuilding from them reproduces the program; non-trivial = mutated/near-miss program or >= 3 instructions; distinct by case",
		pbt.Options{Sub: "recognisers", Checks: pbt.Per(60000, 10000000),
			MinClass: map[string]int{"rec/clen:1": 20, "rec/clen:75": 20, "rec/clen:76": 20, "rec/clen:255": 20, "rec/clen:256": 20, "rec/clen:65535": 20, "rec/clen:65536": 20,
				"rec/accept:segwit.IsP2WPKHScript": 100, "rec/accept:segwit.IsP2WSHScript": 100, "rec/accept:bcrp.IsBCRPScript": 100, "rec/accept:bcrp.IsCallContractScript": 100,
				"rec/accept:segwit.IsStraightforward": 100, "rec/accept:restrict-height": 50, "rec/accept:none": 500}},
		c09GenRec, c09ExecRec)
}
