#!/bin/bash
# run_tier.sh <tier> <id>... : run checks one after another, one summary line each
tier=$1; shift
for id in "$@"; do
  s=$(date +%s)
  out=$(./check "$id" --tier "$tier" 2>&1); rc=$?
  e=$(date +%s)
  echo "$id tier=$tier rc=$rc $((e-s))s :: $(echo "$out" | grep -E "tier=$tier seed" | head -1)"
  if [ $rc -ne 0 ]; then echo "$out" | grep -v "^classes" | tail -30; fi
done
