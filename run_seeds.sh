#!/bin/bash
# run_seeds.sh "<seeds>" <tier> <id>...
seeds=$1; tier=$2; shift 2
for s in $seeds; do
  echo "### VERIF_SEED=$s"
  VERIF_SEED=$s ./run_tier.sh "$tier" "$@"
done
