# Per-property configuration of the driver and the source of MANIFEST.json
# (python3 gen_manifest.py).  Case counts live in the Go tests
# (pbt.Per(quick, thorough)); this table says where the test is, how to run it
# and what is claimed.
import json, os

PBT = "property-based testing (rapid): "

CHECKS = {
    "C31": dict(pkg="pure", test="TestC31", shards=8,
                technique=PBT + "generated boundary-heavy operand pairs judged against a math/big oracle",
                level_text="Every one of the 26 checked operations is run on generated operand pairs concentrated on the type bounds, powers of two and shift-count boundaries (30k cases quick, 6M thorough) and compared with exact big-integer arithmetic in both directions (fits => success and exact value; does not fit => failure). Exploration, not proof: the 2^128 operand space is sampled.",
                level_note="Trusts math/big. Negative shift counts and over-wide counts with operand 0 are outside the asserted domain (DESIGN 4.4).",
                assumptions=["math/big is correct", "operands outside a function's parameter type are not cases",
                             "shift counts < 0, and counts >= width with operand 0, are outside the asserted domain (DESIGN 4.4)"]),
}

_ALL = [json.loads(l)["id"] for l in open(os.path.join(os.path.dirname(os.path.abspath(__file__)), "properties.jsonl"))]
NOT_APPLICABLE = {pid: "check not built yet (work in progress; see DESIGN.md for the plan)" for pid in _ALL if pid not in CHECKS}
