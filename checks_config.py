# Per-property configuration of the driver and the source of MANIFEST.json
# (python3 gen_manifest.py).  Case counts live in the Go tests
# (pbt.Per(quick, thorough)); this table says where the test is, how to run it
# and what is claimed.
import json, os

PBT = "property-based testing (rapid): "

CHECKS = {
    "C31": dict(pkg="pure", test="TestC31", shards=8,
                technique=PBT + "generated boundary-heavy operand pairs judged against a math/big oracle",
                level_text="Every one of the 26 checked operations is run on generated operand pairs concentrated on the type bounds, powers of two and shift-count boundaries (30k cases quick, 6M thorough) and compared with exact big-integer arithmetic in both directions (fits => success and exact value; does not fit => failure). Exploration, not proof: the 2^128 operand space is sampled.",
                level_note="Trusts math/big. Negative shift counts and over-wide counts with operand 0 are outside the asserted domain (DESIGN 4.4).",
                assumptions=["math/big is correct", "operands outside a function's parameter type are not cases",
                             "shift counts < 0, and counts >= width with operand 0, are outside the asserted domain (DESIGN 4.4)"]),
    "C12": dict(pkg="chaincheck", test="TestC12", shards=12, journal=True,
                technique=PBT + "exhaustive permutation of small block trees plus generated delivery orders of larger ones against a model of the main chain",
                level_text="Real protocol.Chain instances (production LevelDB wrapper over in-memory storage, harness-owned validator keys, custom epoch length) receive every permutation of the blocks of small bushy trees and generated permutations (with duplicates) of trees of up to 24 transaction-carrying blocks. After the last delivery every block must be connected, the best block must be the fork-choice winner, the main-chain index and the ledger must equal the model of that chain. A crash of the block-processor goroutine kills the test binary; the journal of the running case then becomes the replay.",
                level_note="Trusts chainkit's block builder and ledger model (harness code, validated by the node accepting its blocks). Orphan expiry by wall clock (60 min) is not exercised.",
                assumptions=["blocks are valid and distinct", "orphan pool limit (256) and TTL not reached"]),
    "C10": dict(pkg="chaincheck", test="TestC10", shards=12, journal=True,
                technique=PBT + "generated block trees and delivery orders; node state compared after every step with an independent fold of the main chain, plus differential probe blocks against a fresh node",
                level_text="Block trees of 5-40 blocks with spends, coinbase spends, votes, vetoes, contract registrations and issuances are delivered so that the node walks through reorganisations; after every delivery the unspent set, the constraint height of every coinbase/vote output and the contract table read from the database must equal a 100-line reference fold of the current main chain. Finally one probe block (veto at or inside the lock, immature coinbase spend, double spend, missing input, ordinary spend) must get the same verdict from the history node, from a fresh node that only saw the main chain, and from the model.",
                level_note="Trusts chainkit's model; block height of normal outputs is not compared (not a spending constraint). One probe per case because a refused block stays in the fork-choice tree (C13 known finding).",
                assumptions=["all generated blocks are valid", "probe verdict = error value of ProcessBlock"]),
}

_ALL = [json.loads(l)["id"] for l in open(os.path.join(os.path.dirname(os.path.abspath(__file__)), "properties.jsonl"))]
NOT_APPLICABLE = {pid: "check not built yet (work in progress; see DESIGN.md for the plan)" for pid in _ALL if pid not in CHECKS}
