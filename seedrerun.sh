#!/bin/bash
# seedrerun.sh <name under /verif/seeded> <tier> <check id>...   re-runs checks against a stored seeded change
set -u
NAME=$1; TIER=$2; shift 2
WT=/tmp/chk-$NAME
git -C /repo worktree remove --force "$WT" >/dev/null 2>&1
git -C /repo worktree add -q --detach "$WT" HEAD || exit 2
( cd "$WT" && git apply /verif/seeded/$NAME/patch.diff ) || { echo "PATCH DOES NOT APPLY"; git -C /repo worktree remove --force "$WT"; exit 2; }
/verif/seedrun.sh "$WT" "$TIER" "$@"
git -C /repo worktree remove --force "$WT"
