#!/usr/bin/env python3
"""Writes MANIFEST.json from checks_config.py (single source of truth)."""
import json, os, sys
ROOT = os.path.dirname(os.path.abspath(__file__))
sys.path.insert(0, ROOT)
from checks_config import CHECKS, NOT_APPLICABLE

BASELINE_OFF = ("cd /repo && for m in . ./lib/github.com/tendermint/ed25519 ./lib/golang.org/x/crypto ./lib/golang.org/x/net; do "
                "(cd /repo/$m && GOFLAGS=-mod=mod GOPROXY=off GOSUMDB=off go test -json -vet=off -count=1 -timeout 25m ./...); done")

m = {
    "version": 1,
    "setup_cmd": "./check --setup",
    "hooks": {
        "guard": "verif",
        "enable": "go test -tags verif -overlay=/verif/build/overlay.json -vet=off (overlay adds files from /verif/shims/<pkg>/zz_verif_export.go, each '//go:build verif', to packages of /repo without touching /repo; one hook commit in /repo adds two no-op call sites and two tagged files in protocol/casper that count queued/finished replays of cached verification messages)",
        "baseline_off_cmd": BASELINE_OFF,
        "source_commits": ["a94f9aa13219ccaa3cd5b2c7443de9900b0e8acc"],
        "add_only": True,
    },
    "engines": [
        {"name": "rapid-harness", "path": "harness/", "serves_properties": sorted(CHECKS),
         "kind_free_text": "Go module 'verifharness' (pgregory.net/rapid v1.3.0) compiled against /repo through a replace directive; python3 driver ./check shards by seed, merges evidence, promotes replay files"},
    ],
    "checks": [],
    "not_applicable": [{"property_id": k, "reason": v} for k, v in sorted(NOT_APPLICABLE.items())],
    "notes": "See DESIGN.md. Exit codes: 0 held, 1 VIOLATION, 2 check could not run (never a violation). known_findings.json lists genuine defects recorded instead of repaired, and 'fixed' records.",
}
for pid, c in sorted(CHECKS.items()):
    m["checks"].append({
        "property_id": pid,
        "quick_cmd": "./check %s --tier quick" % pid,
        "thorough_cmd": "./check %s --tier thorough" % pid,
        "evidence_file": "evidence/%s.json" % pid,
        "replay_cmd_template": "./check %s --replay {path}" % pid,
        "engine": "rapid-harness",
        "level_claimed": {"category": c.get("level", "exploration"), "text": c["level_text"], "design_ref": "DESIGN.md section 5, " + pid},
        "level_note": c["level_note"],
        "technique": c["technique"],
    })
json.dump(m, open(os.path.join(ROOT, "MANIFEST.json"), "w"), indent=1)
print("wrote MANIFEST.json with %d checks, %d not_applicable" % (len(m["checks"]), len(m["not_applicable"])))
