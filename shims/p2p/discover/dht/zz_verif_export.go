//go:build verif

package dht

import (
	"net"

	"github.com/bytom/bytom/common"
)

// Exported aliases of unexported routing-table internals for the C34 check.
// Nothing here changes behaviour: thin wrappers and read-only dumps only.

const (
	VerifBucketSize = bucketSize
	VerifNBuckets   = nBuckets
)

// VerifBucketDump is a copy of one non-empty bucket.
type VerifBucketDump struct {
	Index        int
	Entries      []*Node
	Replacements []*Node
}

// VerifNewTable is newTable: no network, no database.
func VerifNewTable(ourID NodeID, ourAddr *net.UDPAddr) *Table { return newTable(ourID, ourAddr) }

func (tab *Table) VerifAdd(n *Node) *Node     { return tab.add(n) }
func (tab *Table) VerifStuff(nodes []*Node)   { tab.stuff(nodes) }
func (tab *Table) VerifDelete(n *Node)        { tab.delete(n) }
func (tab *Table) VerifDeleteReplace(n *Node) { tab.deleteReplace(n) }
func (tab *Table) VerifCount() int            { return tab.count }
func (tab *Table) VerifSelf() *Node           { return tab.self }
func (tab *Table) VerifBucketOf(n *Node) int  { return logdist(tab.self.sha, n.sha) }
func (n *Node) VerifSha() common.Hash         { return n.sha }
func VerifLogdist(a, b common.Hash) int       { return logdist(a, b) }

// VerifBuckets returns copies of all buckets that hold an entry or a replacement.
func (tab *Table) VerifBuckets() []VerifBucketDump {
	var out []VerifBucketDump
	for i, b := range &tab.buckets {
		if len(b.entries) == 0 && len(b.replacements) == 0 {
			continue
		}
		out = append(out, VerifBucketDump{
			Index:        i,
			Entries:      append([]*Node(nil), b.entries...),
			Replacements: append([]*Node(nil), b.replacements...),
		})
	}
	return out
}
