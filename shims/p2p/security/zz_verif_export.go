//go:build verif

package security

import "time"

// VerifIncrease is Increase with the clock supplied by the caller (thin wrapper of the
// unexported increase, same locking as Increase).
func (s *DynamicBanScore) VerifIncrease(persistent, transient uint32, t time.Time) uint32 {
	s.mtx.Lock()
	r := s.increase(persistent, transient, t)
	s.mtx.Unlock()
	return r
}

// VerifInt is Int with the clock supplied by the caller.
func (s *DynamicBanScore) VerifInt(t time.Time) uint32 {
	s.mtx.Lock()
	r := s.int(t)
	s.mtx.Unlock()
	return r
}
