//go:build verif

package leveldb

import (
	"github.com/syndtr/goleveldb/leveldb"
	"github.com/syndtr/goleveldb/leveldb/storage"
)

// VerifNewMemLevelDB returns the production GoLevelDB wrapper over goleveldb's
// in-memory storage: same code paths as the on-disk backend, no files.  Options are
// goleveldb's defaults, as in production (a smaller write buffer was tried to save memory and made
// goleveldb's large-batch transaction path misbehave: "keys are not in increasing order", stale keys
// after a delete-all batch); memory is released by closing the database of a finished case instead.
func VerifNewMemLevelDB() *GoLevelDB {
	db, err := leveldb.Open(storage.NewMemStorage(), nil)
	if err != nil {
		panic(err)
	}
	return &GoLevelDB{db: db}
}
