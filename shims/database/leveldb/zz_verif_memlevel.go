//go:build verif

package leveldb

import (
	"github.com/syndtr/goleveldb/leveldb"
	"github.com/syndtr/goleveldb/leveldb/storage"
)

// VerifNewMemLevelDB returns the production GoLevelDB wrapper over goleveldb's
// in-memory storage: same code paths as the on-disk backend, no files.
func VerifNewMemLevelDB() *GoLevelDB {
	db, err := leveldb.Open(storage.NewMemStorage(), nil)
	if err != nil {
		panic(err)
	}
	return &GoLevelDB{db: db}
}
