//go:build verif

package leveldb

import (
	"github.com/syndtr/goleveldb/leveldb"
	"github.com/syndtr/goleveldb/leveldb/opt"
	"github.com/syndtr/goleveldb/leveldb/storage"
)

// VerifNewMemLevelDB returns the production GoLevelDB wrapper over goleveldb's
// in-memory storage: same code paths as the on-disk backend, no files.  The write
// buffer is 64 KiB instead of goleveldb's 4 MiB default: a check creates thousands of
// nodes per process and each keeps its buffer for as long as the node's idle goroutines live.
func VerifNewMemLevelDB() *GoLevelDB {
	db, err := leveldb.Open(storage.NewMemStorage(), &opt.Options{WriteBuffer: 64 << 10})
	if err != nil {
		panic(err)
	}
	return &GoLevelDB{db: db}
}
