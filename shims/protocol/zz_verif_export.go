//go:build verif

package protocol

import (
	"time"

	"github.com/golang/groupcache/lru"

	"github.com/bytom/bytom/event"
	"github.com/bytom/bytom/protocol/bc"
	"github.com/bytom/bytom/protocol/bc/types"
	"github.com/bytom/bytom/protocol/state"
)

// VerifNewTxPool is NewTxPool without the background orphanExpireWorker goroutine (the
// harness calls ExpireOrphan itself, with generated times).
func VerifNewTxPool(store state.Store, dispatcher *event.Dispatcher) *TxPool {
	return &TxPool{
		lastUpdated:     time.Now().Unix(),
		store:           store,
		pool:            make(map[bc.Hash]*TxDesc),
		utxo:            make(map[bc.Hash]*types.Tx),
		orphans:         make(map[bc.Hash]*orphanTx),
		orphansByPrev:   make(map[bc.Hash]map[bc.Hash]*orphanTx),
		errCache:        lru.New(maxCachedErrTxs),
		eventDispatcher: dispatcher,
	}
}

// VerifTxPoolSnapshot is a copy of the identifiers held in the four mempool maps.
type VerifTxPoolSnapshot struct {
	Pool          map[bc.Hash]bc.Hash             // pool key -> id of the transaction stored under it
	Utxo          map[bc.Hash]bc.Hash             // output id -> id of the transaction stored under it
	Orphans       map[bc.Hash]time.Time           // orphan key -> expiration
	OrphanTxIDs   map[bc.Hash]bc.Hash             // orphan key -> id of the transaction stored under it
	OrphansByPrev map[bc.Hash]map[bc.Hash]bc.Hash // output id -> (key -> id of the transaction stored under it)
}

// VerifSnapshot copies the pool's bookkeeping under the pool lock.
func (tp *TxPool) VerifSnapshot() *VerifTxPoolSnapshot {
	tp.mtx.RLock()
	defer tp.mtx.RUnlock()

	s := &VerifTxPoolSnapshot{
		Pool:          map[bc.Hash]bc.Hash{},
		Utxo:          map[bc.Hash]bc.Hash{},
		Orphans:       map[bc.Hash]time.Time{},
		OrphanTxIDs:   map[bc.Hash]bc.Hash{},
		OrphansByPrev: map[bc.Hash]map[bc.Hash]bc.Hash{},
	}
	for k, d := range tp.pool {
		s.Pool[k] = d.Tx.ID
	}
	for k, tx := range tp.utxo {
		s.Utxo[k] = tx.ID
	}
	for k, o := range tp.orphans {
		s.Orphans[k] = o.expiration
		s.OrphanTxIDs[k] = o.Tx.ID
	}
	for out, m := range tp.orphansByPrev {
		c := map[bc.Hash]bc.Hash{}
		for k, o := range m {
			c[k] = o.Tx.ID
		}
		s.OrphansByPrev[out] = c
	}
	return s
}

// VerifSetOrphanExpiration replaces the wall-clock expiration (time.Now()+orphanTTL) of an
// orphan by a caller-chosen instant so that ExpireOrphan(t) is deterministic.  It reports
// whether the transaction is an orphan.
func (tp *TxPool) VerifSetOrphanExpiration(id bc.Hash, t time.Time) bool {
	tp.mtx.Lock()
	defer tp.mtx.Unlock()

	o, ok := tp.orphans[id]
	if ok {
		o.expiration = t
	}
	return ok
}
