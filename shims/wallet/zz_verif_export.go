//go:build verif

package wallet

import (
	"fmt"

	"github.com/bytom/bytom/account"
	"github.com/bytom/bytom/asset"
	"github.com/bytom/bytom/blockchain/pseudohsm"
	"github.com/bytom/bytom/contract"
	dbm "github.com/bytom/bytom/database/leveldb"
	"github.com/bytom/bytom/event"
	"github.com/bytom/bytom/protocol"
)

// VerifNewWallet is NewWallet without the three background goroutines (walletUpdater,
// delUnconfirmedTx, memPoolTxQueryLoop) and without the mempool subscription: the harness
// drives the updater's logic itself, one step at a time, with VerifStep.
func VerifNewWallet(walletDB dbm.DB, account *account.Manager, asset *asset.Registry, contract *contract.Registry, hsm *pseudohsm.HSM, chain *protocol.Chain, dispatcher *event.Dispatcher, txIndexFlag bool) (*Wallet, error) {
	w := &Wallet{
		DB:              walletDB,
		AccountMgr:      account,
		AssetReg:        asset,
		ContractReg:     contract,
		chain:           chain,
		Hsm:             hsm,
		RecoveryMgr:     newRecoveryManager(walletDB, account),
		eventDispatcher: dispatcher,
		rescanCh:        make(chan struct{}, 1),
		TxIndexFlag:     txIndexFlag,
	}

	if err := w.loadWalletInfo(); err != nil {
		return nil, err
	}

	if err := w.RecoveryMgr.LoadStatusInfo(); err != nil {
		return nil, err
	}
	return w, nil
}

// VerifStepResult says what one step of the updater did.
type VerifStepResult struct {
	Detached bool // a block was detached
	Attached bool // a block was attached
	Height   uint64
	Hash     [32]byte
}

// VerifStep performs one action of walletUpdater's loop body: while the wallet's best block is
// not on the main chain it detaches that block; otherwise it attaches the main-chain block
// at WorkHeight+1 if there is one.  It returns what it did (nothing = the updater would now
// wait for the next block).
func (w *Wallet) VerifStep() (VerifStepResult, error) {
	var res VerifStepResult
	if !w.chain.InMainChain(w.status.BestHash) {
		block, err := w.chain.GetBlockByHash(&w.status.BestHash)
		if err != nil {
			return res, fmt.Errorf("walletUpdater GetBlockByHash: %v", err)
		}
		if err := w.DetachBlock(block); err != nil {
			return res, fmt.Errorf("walletUpdater detachBlock: %v", err)
		}
		res.Detached, res.Height, res.Hash = true, block.Height, block.Hash().Byte32()
		return res, nil
	}

	block, _ := w.chain.GetBlockByHeight(w.status.WorkHeight + 1)
	if block == nil {
		return res, nil
	}
	before := w.status.WorkHash
	if err := w.AttachBlock(block); err != nil {
		return res, fmt.Errorf("walletUpdater AttachBlock: %v", err)
	}
	if w.status.WorkHash == before {
		return res, fmt.Errorf("walletUpdater AttachBlock skipped main-chain block at height %d (previous hash does not match the wallet's work hash)", block.Height)
	}
	res.Attached, res.Height, res.Hash = true, block.Height, block.Hash().Byte32()
	return res, nil
}

// VerifRescan requests a rescan the way the rescan API, UpdateAccountAlias and DeleteAccount do
// (RescanBlocks) and lets the updater notice it (getRescanNotification, the first thing its loop does).
func (w *Wallet) VerifRescan() {
	w.RescanBlocks()
	w.getRescanNotification()
}
