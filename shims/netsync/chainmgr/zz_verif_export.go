//go:build verif

package chainmgr

import (
	msgs "github.com/bytom/bytom/netsync/messages"
)

// VerifDecodeMessage is decodeMessage, the function ProtocolReactor.Receive
// applies to every byte string a peer sends on the blockchain channel (C04, C05).
func VerifDecodeMessage(bz []byte) (msgType byte, msg msgs.BlockchainMessage, err error) {
	return decodeMessage(bz)
}
