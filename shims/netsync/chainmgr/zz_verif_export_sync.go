//go:build verif

package chainmgr

import (
	"github.com/bytom/bytom/protocol/bc"
	"github.com/bytom/bytom/protocol/bc/types"
)

// Thin exported wrappers for the verification harness (C33).  They build a
// blockKeeper with only the chain field set, exactly as the package's own
// tests do, and change no package state.

// VerifLocateHeaders is blockKeeper.locateHeaders (what handleGetHeadersMsg calls).
func VerifLocateHeaders(chain Chain, locator []*bc.Hash, stopHash *bc.Hash, skip uint64, maxNum uint64) ([]*types.BlockHeader, error) {
	bk := &blockKeeper{chain: chain}
	return bk.locateHeaders(locator, stopHash, skip, maxNum)
}

// VerifLocateBlocks is blockKeeper.locateBlocks (what handleGetBlocksMsg calls).
func VerifLocateBlocks(chain Chain, locator []*bc.Hash, stopHash *bc.Hash, isTimeout func() bool) ([]*types.Block, error) {
	bk := &blockKeeper{chain: chain}
	return bk.locateBlocks(locator, stopHash, isTimeout)
}

// VerifMaxNumOfHeadersPerMsg is the protocol maximum handleGetHeadersMsg passes to locateHeaders.
func VerifMaxNumOfHeadersPerMsg() uint64 { return maxNumOfHeadersPerMsg }

// VerifMaxNumOfBlocksPerMsg is the protocol maximum locateBlocks uses.
func VerifMaxNumOfBlocksPerMsg() uint64 { return maxNumOfBlocksPerMsg }
