//go:build verif

package consensusmgr

// VerifDecodeMessage is decodeMessage, the function ConsensusReactor.Receive
// applies to every byte string a peer sends on the consensus channel (C04, C05).
func VerifDecodeMessage(bz []byte) (msgType byte, msg ConsensusMessage, err error) {
	return decodeMessage(bz)
}
