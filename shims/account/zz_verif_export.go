//go:build verif

package account

import (
	"time"

	dbm "github.com/bytom/bytom/database/leveldb"
	"github.com/bytom/bytom/protocol/bc"
)

// VerifUtxoKeeper exports the unexported keeper type (its exported methods AddUnconfirmedUtxo,
// RemoveUnconfirmedUtxo, Cancel, ... become callable from the harness).
type VerifUtxoKeeper = utxoKeeper

// VerifNewUtxoKeeper is newUtxoKeeper without the background expireWorker goroutine (the harness
// runs expiry itself, at generated instants).  f returns the current block height, walletdb is
// the wallet database confirmed UTXOs are read from.
func VerifNewUtxoKeeper(f func() uint64, walletdb dbm.DB) *VerifUtxoKeeper {
	return &utxoKeeper{
		db:            walletdb,
		currentHeight: f,
		unconfirmed:   make(map[bc.Hash]*UTXO),
		reserved:      make(map[bc.Hash]uint64),
		reservations:  make(map[uint64]*reservation),
	}
}

// VerifReservation is a copy of the unexported reservation.
type VerifReservation struct {
	ID     uint64
	UTXOs  []UTXO
	Change uint64
	Expiry time.Time
}

func verifCopyReservation(r *reservation) *VerifReservation {
	if r == nil {
		return nil
	}
	out := &VerifReservation{ID: r.id, Change: r.change, Expiry: r.expiry}
	for _, u := range r.utxos {
		out.UTXOs = append(out.UTXOs, *u)
	}
	return out
}

// VerifReserve is Reserve with the result copied into an exported type.
func (uk *utxoKeeper) VerifReserve(accountID string, assetID *bc.AssetID, amount uint64, useUnconfirmed bool, vote []byte, exp time.Time) (*VerifReservation, error) {
	r, err := uk.Reserve(accountID, assetID, amount, useUnconfirmed, vote, exp)
	return verifCopyReservation(r), err
}

// VerifReserveParticular is ReserveParticular with the result copied into an exported type.
func (uk *utxoKeeper) VerifReserveParticular(outHash bc.Hash, useUnconfirmed bool, exp time.Time) (*VerifReservation, error) {
	r, err := uk.ReserveParticular(outHash, useUnconfirmed, exp)
	return verifCopyReservation(r), err
}

// VerifExpire runs what the expireWorker runs on every tick, with the instant given by the caller.
func (uk *utxoKeeper) VerifExpire(t time.Time) { uk.expireReservation(t) }

// VerifDump copies the live reservations and the reserved-output index under the keeper's lock.
func (uk *utxoKeeper) VerifDump() (live []*VerifReservation, reserved map[bc.Hash]uint64) {
	uk.mtx.Lock()
	defer uk.mtx.Unlock()

	for _, r := range uk.reservations {
		live = append(live, verifCopyReservation(r))
	}
	reserved = make(map[bc.Hash]uint64, len(uk.reserved))
	for k, v := range uk.reserved {
		reserved[k] = v
	}
	return live, reserved
}
