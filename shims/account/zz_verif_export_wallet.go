//go:build verif

package account

import (
	dbm "github.com/bytom/bytom/database/leveldb"
	"github.com/bytom/bytom/protocol"
	"github.com/bytom/bytom/protocol/bc"
)

// VerifNewManager is NewManager without the utxoKeeper's background expireWorker goroutine
// (a ticker that never stops): reservations made through this manager live until cancelled.
func VerifNewManager(walletDB dbm.DB, chain *protocol.Chain) *Manager {
	return &Manager{
		db:    walletDB,
		chain: chain,
		utxoKeeper: &utxoKeeper{
			db:            walletDB,
			currentHeight: chain.BestBlockHeight,
			unconfirmed:   make(map[bc.Hash]*UTXO),
			reserved:      make(map[bc.Hash]uint64),
			reservations:  make(map[uint64]*reservation),
		},
	}
}
