//go:build verif

package authn

import "time"

// VerifAgeCache makes every cached credential look d older (as if d had passed
// since it was last looked up in the store).  Used by the C36 check instead of
// waiting for the 5 minute expiry.
func (a *API) VerifAgeCache(d time.Duration) {
	a.tokenMu.Lock()
	defer a.tokenMu.Unlock()
	for k, v := range a.tokenMap {
		v.lastLookup = v.lastLookup.Add(-d)
		a.tokenMap[k] = v
	}
}

// VerifCacheLen is the number of cached credentials.
func (a *API) VerifCacheLen() int {
	a.tokenMu.Lock()
	defer a.tokenMu.Unlock()
	return len(a.tokenMap)
}
