#!/usr/bin/env python3
# seedrecord.py <name> <round> '<caught_by json>' '<history>'  -- writes seeded/<name>/meta.json and the results.json entry
import json, sys, os
name, rnd, caught, hist = sys.argv[1], int(sys.argv[2]), json.loads(sys.argv[3]), sys.argv[4]
d = f'/verif/seeded/{name}'
am = json.load(open(f'{d}/agent_meta.json'))
meta = {"name": name, "property": am["property"], "round": rnd, "summary": am.get("summary", ""), "needs_to_manifest": am.get("needs", ""), "sites": am.get("sites", []),
        "confirmed": "seedeval.sh: patch applied to a fresh scratch worktree of /repo HEAD; go build ./... ok; existing tests of the touched packages pass; the demonstration test passes on the clean tree and fails with the patch",
        "checks_run": "seedrun.sh <worktree> quick <ids>", "caught_by": caught, "history": hist}
json.dump(meta, open(f'{d}/meta.json', 'w'), indent=1)
r = json.load(open('/verif/seeded/results.json'))
needs = am.get("needs", "")
if len(needs) > 260:
    needs = needs[:257].rsplit(' ', 1)[0] + " ..."
r[name] = {"property": am["property"], "needs": needs, "caught_by": caught, "history": hist, "round": rnd}
json.dump(r, open('/verif/seeded/results.json', 'w'), indent=1)
print("recorded", name)
