#!/bin/bash
# seedrun.sh <worktree-with-change> <tier> <check id>...
# Runs registered checks against a scratch worktree of the repository (a seeded change) without
# touching /repo, the harness or the evidence directory.  Output: one line per check.
set -u
WT=$1; TIER=$2; shift 2
TAG=$(basename "$WT")
H=/tmp/h-$TAG; B=/tmp/b-$TAG; E=/tmp/e-$TAG; R=/tmp/r-$TAG
rm -rf "$H"; cp -r /verif/harness "$H"; rm -f "$H/go.sum"
for id in "$@"; do
  start=$(date +%s)
  out=$(cd /verif && VERIF_REPO="$WT" VERIF_HARNESS_DIR="$H" VERIF_BUILD_DIR="$B" VERIF_EVIDENCE_DIR="$E" VERIF_REPLAYS_OUT="$R" timeout 3000 ./check "$id" --tier "$TIER" 2>&1)
  rc=$?
  end=$(date +%s)
  echo "== $TAG $id tier=$TIER rc=$rc $((end-start))s"
  echo "$out" | grep -E "VIOLATION|check broken|BUILD FAILED" | head -3
  if [ $rc -eq 1 ]; then echo "$out" | grep -A4 "FAILCASE" | grep -v "rapid\]" | head -8; fi
done
rm -rf "$H" "$B" "$E"
